#!/bin/sh
# MANIFEST.setup_cmd: offline, from files on disk only.
# 1. icontract into /verif/.deps (run-time contracts on the real classes);
# 2. self-test of the reference models against external known-answer vectors and of
#    the keccak backend against the pure-Python Keccak-256.
HERE="$(cd "$(dirname "$0")" && pwd)"
PY="${VERIF_PYTHON:-/venv/bin/python}"
cd "$HERE" || exit 1
mkdir -p .deps .work evidence replays
if [ ! -d .deps/icontract ]; then
  "$PY" -m pip install --quiet --no-index --disable-pip-version-check \
      --find-links /opt/veriftools/wheels --target .deps icontract \
      || echo "setup: icontract could not be installed; contract monitors will report zero evaluations"
fi
PYTHONPATH="$HERE" PYTHONDONTWRITEBYTECODE=1 "$PY" -m vt.selftest
