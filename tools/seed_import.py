#!/venv/bin/python
"""Import confirmed seeded changes into /verif/seeded/<id>/ (patch.diff, demo.py, meta.json).
usage: tools/seed_import.py <out-root> <results-root> [id ...]"""
import json, os, re, shutil, sys
here = os.path.dirname(os.path.dirname(os.path.abspath(__file__)))
out, res = sys.argv[1], sys.argv[2]
ids = sys.argv[3:] or sorted(d for d in os.listdir(out) if os.path.isdir(os.path.join(out, d)))
for i in ids:
    src = os.path.join(out, i)
    conf = open(os.path.join(res, i + ".confirm")).read()
    m = re.search(r"demo unchanged exit=(\d+), demo patched exit=(\d+), tests: (.*)", conf)
    if not m or m.group(1) != "0" or m.group(2) == "0" or "215 passed" not in m.group(3):
        print("NOT CONFIRMED", i, conf[-300:]); continue
    aud = open(os.path.join(res, i + ".audit")).read()
    caught = re.search(r"CAUGHT-BY:(.*)", aud).group(1).split()
    monitors = sorted(set(re.findall(r"monitor=([\w-]+)", aud)))
    meta = json.load(open(os.path.join(src, "meta.json")))
    dst = os.path.join(here, "seeded", i)
    os.makedirs(dst, exist_ok=True)
    shutil.copy(os.path.join(src, "patch.diff"), dst)
    shutil.copy(os.path.join(src, "demo.py"), dst)
    meta_out = {
        "id": i,
        "property": meta.get("property"),
        "summary": meta.get("summary"),
        "needs_to_manifest": meta.get("needs_to_manifest"),
        "files_touched": meta.get("files_touched"),
        "origin": "fresh sub-agent given only the property text and a scratch worktree",
        "confirmed": {
            "how": "tools/seed_confirm.sh on a scratch copy of /repo: demo.py on the unchanged tree, then with patch.diff applied, then the pinned suite with the patch",
            "demo_unchanged_exit": int(m.group(1)), "demo_patched_exit": int(m.group(2)),
            "tests_with_patch": m.group(3).strip("= ").strip() + " (the 1 failure is test_fixtures_exist, which fails on the unchanged tree too)",
        },
        "checks_run": "tools/seed_audit.sh <dir> quick (VERIF_REPO pointed at a scratch copy with the patch applied)",
        "caught_by_quick": caught,
        "monitors_fired": monitors,
    }
    json.dump(meta_out, open(os.path.join(dst, "meta.json"), "w"), indent=1)
    print("imported", i, "caught by", caught, monitors[:3])
