#!/bin/sh
# Run every seeded change under /verif/seeded against the check of the property it breaks
# (scratch copies of /repo, VERIF_REPO; /repo itself is never touched) and print one line each.
# usage: tools/seeded_audit_all.sh [tier] [parallelism]
HERE="$(cd "$(dirname "$0")/.." && pwd)"
TIER="${1:-quick}"
P="${2:-4}"
ls -d "$HERE"/seeded/*/ | xargs -P "$P" -n 1 sh -c '"$0/tools/seed_audit.sh" "$2" "$1" 2>&1 | grep "CAUGHT-BY"' "$HERE" "$TIER" | sort
