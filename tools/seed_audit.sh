#!/bin/sh
# Run checks against a scratch copy of /repo with one seeded change applied.
# usage: tools/seed_audit.sh <dir-with-patch.diff> [tier] [check ...]
#   default checks: the property named in meta.json; "all" = every check.
# The scratch copy lives under ${TMPDIR:-/tmp} (outside /repo and /verif) and is removed
# afterwards.  /repo itself is never touched (VERIF_REPO points the checks at the copy).
HERE="$(cd "$(dirname "$0")/.." && pwd)"
D="$(cd "$1" && pwd)"; shift
TIER="${1:-quick}"; [ $# -gt 0 ] && shift
PROP=$(/venv/bin/python -c "import json,sys;print(json.load(open('$D/meta.json'))['property'])" 2>/dev/null)
CHECKS="$*"
[ -z "$CHECKS" ] && CHECKS="$PROP"
[ "$CHECKS" = "all" ] && CHECKS="C01 C02 C03 C04 C05 C06 C07 C08 C09 C10 C11 C12 C13 C14 C15 C16 C17 C18"
S=$(mktemp -d "${TMPDIR:-/tmp}/seedaudit.XXXXXX")
trap 'rm -rf "$S"' EXIT
mkdir -p "$S/repo"
rsync -a --exclude .git --exclude __pycache__ --exclude .hypothesis --exclude .pytest_cache /repo/ "$S/repo/" || exit 3
(cd "$S/repo" && git init -q . && git apply "$D/patch.diff") || { echo "patch does not apply"; exit 3; }
cd "$HERE" || exit 3
caught=""
for p in $CHECKS; do
  out=$(VERIF_REPO="$S/repo" VERIF_SEED="${VERIF_SEED:-0}" ./check "$p" --tier "$TIER" --no-evidence 2>&1); e=$?
  echo "$(basename "$D") [$p exit $e] $(echo "$out" | grep -E '^C[0-9]+ tier' | head -1)"
  echo "$out" | grep -E "monitor=|INCONCLUSIVE|MONITOR-ERROR|shard .* exited" | head -3 | cut -c1-300
  [ $e -eq 1 ] && caught="$caught $p"
done
# replays written against the scratch copy are of no use afterwards
echo "$(basename "$D") CAUGHT-BY:${caught:- none}"
