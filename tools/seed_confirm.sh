#!/bin/sh
# Confirm a seeded change: demo passes on the unchanged tree, fails with the patch, and the
# pinned test-suite still passes with the patch.  Works on a scratch copy of /repo's tracked
# files under ${TMPDIR:-/tmp}; removed afterwards.
# usage: tools/seed_confirm.sh <dir-with-patch.diff+demo.py> [--no-tests]
D="$(cd "$1" && pwd)"
S=$(mktemp -d "${TMPDIR:-/tmp}/seedconfirm.XXXXXX")
trap 'rm -rf "$S"' EXIT
mkdir -p "$S/repo"
rsync -a --exclude .git --exclude __pycache__ --exclude .hypothesis --exclude .pytest_cache /repo/ "$S/repo/" || exit 3
cd "$S/repo" || exit 3
git init -q .
/venv/bin/python "$D/demo.py" >"$S/demo0.log" 2>&1; d0=$?
git apply "$D/patch.diff" || { echo "$(basename "$D"): PATCH DOES NOT APPLY"; exit 3; }
/venv/bin/python "$D/demo.py" >"$S/demo1.log" 2>&1; d1=$?
t="skipped"
if [ "$2" != "--no-tests" ]; then
  PYTHONDONTWRITEBYTECODE=1 /venv/bin/python -m pytest -q -p no:cacheprovider --timeout=900 tests/core --ignore=tests/core/test_iter.py >"$S/tests.log" 2>&1
  t=$(tail -1 "$S/tests.log"; grep -E "^FAILED" "$S/tests.log" | grep -v test_fixtures_exist | cut -c1-200)
fi
echo "$(basename "$D"): demo unchanged exit=$d0, demo patched exit=$d1, tests: $t"
tail -3 "$S/demo1.log" | cut -c1-300
