#!/venv/bin/python
"""Calibrate inconclusive floors: run a check for several seeds (no evidence written), print the
minimum of every observed counter and the floor currently configured.  Floors must stay at or
below 1/10 of the minimum observed (DESIGN.md 3.5)."""
import os, re, subprocess, sys, importlib
here = os.path.dirname(os.path.dirname(os.path.abspath(__file__)))
sys.path.insert(0, here)
prop, tier = sys.argv[1], sys.argv[2] if len(sys.argv) > 2 else "quick"
seeds = [int(x) for x in (sys.argv[3].split(",") if len(sys.argv) > 3 and not sys.argv[3].startswith("--") else "0,1,2".split(","))]
mins, bad = {}, []
for s in seeds:
    env = dict(os.environ, VERIF_SEED=str(s))
    r = subprocess.run([os.path.join(here, "check"), prop, "--tier", tier, "--no-evidence"], env=env, capture_output=True, text=True)
    out = r.stdout
    head = out.splitlines()[0] if out else ""
    print("seed", s, "exit", r.returncode, head)
    if r.returncode not in (0, 2):
        bad.append((s, out[-2000:]))
    m = re.search(r"^observed: (.*)$", out, re.M)
    if m:
        for kv in m.group(1).split(", "):
            k, v = kv.split("=")
            mins[k] = min(mins.get(k, 1 << 60), int(v))
import json
mod = importlib.import_module("vt.props." + prop.lower())
keys = list(getattr(mod, "FLOORS", {}).get(tier, {}))
fpath = os.path.join(here, "floors.json")
allf = json.load(open(fpath)) if os.path.exists(fpath) else {}
if "--write" in sys.argv and not bad:
    allf.setdefault(prop, {})[tier] = {k: max(1, mins.get(k, 0) // 10) for k in keys}
    json.dump(allf, open(fpath, "w"), indent=1, sort_keys=True)
    print("floors.json updated for", prop, tier)
floors = allf.get(prop, {}).get(tier, {})
print("%-32s %12s %12s %12s" % ("counter", "min observed", "floor", "min/10"))
for k in sorted(set(mins) | set(floors)):
    flag = ""
    if k in floors and floors[k] > max(1, mins.get(k, 0) // 10):
        flag = "  <-- floor too high"
    print("%-32s %12d %12s %12d%s" % (k, mins.get(k, 0), floors.get(k, "-"), mins.get(k, 0) // 10, flag))
for s, o in bad:
    print("==== seed", s, "\n", o)
