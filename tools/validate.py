#!/opt/veriftools/pyvenv/bin/python
"""Validate MANIFEST.json and every evidence file against the harness schemas."""
import json, sys, glob, os
import jsonschema
here = os.path.dirname(os.path.dirname(os.path.abspath(__file__)))
ok = True
def check(path, schema):
    global ok
    try:
        jsonschema.validate(json.load(open(path)), json.load(open(schema)))
        print("valid  ", path)
    except Exception as e:
        ok = False
        print("INVALID", path, str(e)[:300])
if os.path.exists(os.path.join(here, "MANIFEST.json")):
    check(os.path.join(here, "MANIFEST.json"), "/root/.vp/MANIFEST.schema.json")
for p in sorted(glob.glob(os.path.join(here, "evidence", "*.json"))):
    check(p, "/root/.vp/EVIDENCE.schema.json")
sys.exit(0 if ok else 1)
