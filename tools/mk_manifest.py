#!/venv/bin/python
"""Regenerate MANIFEST.json from the table below; a property is claimed as soon as its
module vt/props/cNN.py exists, otherwise it is listed under not_applicable."""
import json
import os

HERE = os.path.dirname(os.path.dirname(os.path.abspath(__file__)))

TRUST = ("Held on the monitored executions only (bounded histories, key lengths, trie sizes; "
         "see evidence). Trusted: CPython 3.12, the keccak backend (cross-checked against a "
         "pure-Python Keccak-256 per run), the small executable reference models in vt/ref, "
         "collision resistance of keccak. DESIGN.md section 8.")

T = {
 "C01": ("exploration", "hexary_history", "dict shadow model + probe sweep after every operation of generated histories (history + executable model)",
         "Every generated history (direct and batched, prune on/off, adversarial prefix-related keys) is replayed on the real HexaryTrie while a dict model is updated at each return event; after every operation all four lookup spellings are compared with the model over stored keys, their prefixes, extensions, mid-path divergences, the empty key and fresh keys. Small scope (all op sequences <= 4 over 7 keys) enumerated in the thorough tier. Histories include undo routes back to earlier roots, runs of writes that are not observed in between, and four kinds of block-abort exceptions. Thorough tier adds icontract post-conditions (set => get) on the real methods, also under the repository's own tests."),
 "C02": ("exploration", "hexary_history", "root hash compared after every operation with a top-down Yellow-Paper reference construction (history + executable model), anchored by ethereum/tests vectors",
         "After every operation of every generated history the root hash and the stored root body are compared with an independently written top-down canonical MPT construction from the model's key set; values are aimed at RLP lengths 30-33 and 55/56; insertion/deletion orders of small key sets are enumerated exhaustively. Every third history also attempts operations on an incomplete database (atomic failure or success) before the audits continue. A quarter of the operations pass key and value in a subclass of bytes (the empty value included), and non-pruning histories fork the trie object with copy.copy and audit copy and original."),
 "C03": ("fault_enumeration", "hexary_faults", "proof corruption enumeration with model + reference path oracle and an independent hash-pointer verifier",
         "For every probe key of generated tries the honest proof is compared node for node with the reference path and verified; then every single-node drop, truncation, reordering, duplication, bit flips (value / child hash / path), splices from sibling tries, foreign-key proofs and foreign roots are offered to get_from_proof, whose answer must be the truth for that root or BadTrieProof. A moving-root part repeats the completeness checks for the same keys after every operation of generated histories (batch commits, aborts, root_hash reassignment)."),
 "C04": ("fault_enumeration", "hexary_history", "online trace specification on the database boundary (append-only, content-addressed) + per-root model snapshots + exhaustive failing-write positions",
         "A recording database shared by several non-pruning tries checks every write/delete as it happens (no delete, key = keccak(value), no entry changed); every root ever seen is re-read through a fresh trie and at_root; for every operation every write position is made to fail once and the state audited. Nested squash_changes blocks and all four abort kinds are part of the schedules."),
 "C05": ("fault_enumeration", "hexary_history", "crash-point enumeration over squash_changes blocks with before/after snapshots of root, database and reference counts, and reference-model audit afterwards",
         "For each generated batch every abort position (caller exception after i operations, exceptions raised by the trie inside the block, every failing commit write for non-pruning tries) is executed; root, underlying database and reference counts are compared with the snapshot at block entry, committed batches with the reference root / reachable-node set, no mutation of the underlying database is allowed while the block is open, and the history continues under the C01/C02/C06 audits. Caller-exception crash points are executed both with an Exception subclass and with a non-Exception BaseException (own subclass, KeyboardInterrupt, GeneratorExit)."),
 "C06": ("exploration", "hexary_history", "three-way audit after every operation: database key set vs reference reachable-node multiset (from the model) vs regenerate_ref_count vs reported ref_count",
         "Pruning tries born on an empty database run generated histories (value pools that create shared sub-tries, threshold-sized values, no-op updates, committed and aborted batches); after every operation the database must contain exactly the hashed nodes the reference trie of the model reaches and the reported counts must equal the reference multiset."),
 "C07": ("fault_enumeration", "hexary_faults", "missing-node subset enumeration with twin run on the complete database, reference nibble paths, state snapshots and retry-loop convergence checking",
         "For generated tries every subset of hidden node bodies (exhaustive for small tries, sampled otherwise) is combined with all six operations and traversal; results must equal the complete-database twin or be a truthful MissingTrieNode/MissingTraversalNode; failed calls must leave root, db and counts untouched; the supply-what-was-asked retry loop must converge asking each node once; no write may precede the failing read."),
 "C08": ("exploration", "hexary_walk", "traverse/traverse_from results compared at every nibble path with the reference trie's locate(); database reads counted at the db boundary",
         "For generated tries every prefix of every key, extensions, divergences at every position and all short nibble strings are traversed and compared (node kind, sub-segments, value, suffix, partial-path exception fields, simulated node) with the reference; traverse_from from every node of a full walk must equal traverse, within one read per hop. A moving-root part judges root_node / traverse / traverse_from after every operation of generated histories (inside open blocks, after commits and aborts, after root_hash reassignment). Paths are handed over as lists, tuples, Nibbles, deque, UserList, array and memoryview, and prefix + segment is composed from a plain tuple and the library's own sub-segment objects."),
 "C09": ("exploration", "hexary_walk", "fog-guided walk driver with model snapshots at every mutation; schedules of walk steps and mutations sampled and enumerated for small tries; termination decided on a logical visit bound",
         "The walk protocol of the statement is driven with random and structured selection orders, with/without frontier cache, pruning on/off, while set/delete operations are interleaved at sampled (and for small tries all) positions; stable keys must be met, nothing never-stored may be met, static walks must be exact, the walk must finish within a logical bound. Two walks over two tries, each with its own fog and frontier cache, are also run interleaved."),
 "C10": ("exploration", "hexary_walk", "NodeIterator outputs compared with the sorted model and the reference pre-order",
         "keys/items/values/nodes/next of NodeIterator are compared, for generated tries and a probe set of query keys, with the sorted dict model and the reference trie's pre-order node list. One long-lived iterator is additionally judged after every operation of generated histories that revisit earlier states."),
 "C11": ("exploration", "fog_model", "set-of-tuples model run in lock step with HexaryTrieFog; antichain / immutability as icontract invariants on the real class",
         "Random and small-scope-exhaustive sequences of explore / mark_all_complete with all sub-segment kinds and the three invalid kinds; after every step the unexplored set, antichain, immutability of the receiver, commutation, serialisation round trip and the nearest_* queries are compared with a Python set model. mark_all_complete lists that name a member twice must be refused."),
 "C12": ("exploration", "binary", "dict model with the refusal rule + top-down canonical binary trie reference, checked after every operation; database boundary trace for historical roots",
         "Generated histories of set/delete/delete_subtrie over prefix-conflicting and fixed-length keys; after every call get/exists over a probe set, refusals, unchanged state after a raise, the canonical root and readability of all earlier roots are checked. Writes use method and dict syntax and bytes-subclass arguments; a copy.copy of the trie object runs ahead in a quarter of the histories while the original is audited."),
 "C13": ("fault_enumeration", "binary", "branch / witness checking against the model and the reference node set, with enumeration of branch corruptions",
         "For generated binary tries and probe keys: get_branch + if_branch_valid against the model, every corruption of a branch (drop, truncate, bit flip, other key, other trie) must not validate a wrong answer; check_if_branch_exist, get_trie_nodes and witnesses compared with the model / reference node set. Values that are node hashes, and walks over partial (witness / root-only) databases interleaved with walks over the full one, are included."),
 "C14": ("exploration", "smt", "sparse recursive Merkle reference + dict model after every operation",
         "Generated histories over key sizes 1..32, blank and non-blank defaults and bit-flipped key families; after each operation get/exists, root, returned path hashes, calc_root over branches and from_db are compared with the reference. Explicit blank writes under both defaults and a second independent tree read in alternation are included."),
 "C15": ("exploration", "smt", "SparseMerkleProof fed the tree's update stream and compared with the tree after every update; every truncation length of the node list tried",
         "A proof object receives every update of the tree (other keys at every differing bit position, own key, repeats, deletions) and must equal the tree's value/branch/root; lists truncated below the branch point must be rejected with ValidationError without effect, the exact minimum accepted. A quarter of the streams come from a tree re-opened with from_db."),
 "C16": ("exploration", "codecs", "encode/decode pairs compared with independently written codecs, exhaustively up to a bound and randomly beyond",
         "All nibble strings up to length 4/5, all bit strings up to 12/18, all 1- and 2-byte strings, all type bytes x boundary lengths of binary nodes, and random longer inputs are pushed through the repository's codecs and compared with reference implementations and their own inverses."),
 "C17": ("fault_enumeration", "scratch", "two-dict model of ScratchDB; all action sequences x exit positions enumerated; wrapped db observed at the database boundary",
         "All sequences of set/delete/read/membership up to a bound over 3 keys x pre-contents x do_deletes x every exit position (normal or exception after action i) are executed on the real ScratchDB over a recording database and compared with the model during and after the block. The buffered values include the empty byte string; exits by Exception and non-Exception BaseException kinds."),
 "C18": ("exploration", "badargs", "entry point x bad-argument matrix fired inside histories, lock-step twin object comparison afterwards",
         "The full matrix of public entry points x ill-typed / ill-sized arguments is fired at random positions of histories; the refusal's exception class is checked and the object is compared with a twin that ran the same history without the bad call (root, db, counts, all later results)."),
}

ENGINES = {
 "hexary_history": ("vt/engines/hexary_history.py", "history generator + shadow-model runner for HexaryTrie (direct / batched / pruning), database-boundary recorder"),
 "hexary_faults": ("vt/props/c03.py, vt/props/c07.py", "fault injection at the database boundary and on proofs"),
 "hexary_walk": ("vt/props/c08.py, vt/props/c09.py, vt/props/c10.py", "traversal / walk / iterator monitors against the reference trie"),
 "fog_model": ("vt/props/c11.py", "set model of HexaryTrieFog"),
 "binary": ("vt/props/c12.py, vt/props/c13.py", "BinaryTrie + branches monitors"),
 "smt": ("vt/props/c14.py, vt/props/c15.py", "SparseMerkleTree / SparseMerkleProof monitors"),
 "codecs": ("vt/props/c16.py", "codec cross-checks"),
 "scratch": ("vt/props/c17.py", "ScratchDB model"),
 "badargs": ("vt/props/c18.py", "bad-argument matrix with twin comparison"),
}


def main():
    checks, na = [], []
    for pid in sorted(T):
        level, engine, technique, text = T[pid]
        if os.path.exists(os.path.join(HERE, "vt", "props", pid.lower() + ".py")):
            checks.append({
                "property_id": pid,
                "quick_cmd": "./check %s --tier quick" % pid,
                "thorough_cmd": "./check %s --tier thorough" % pid,
                "evidence_file": "/verif/evidence/%s.json" % pid,
                "replay_cmd_template": "./check %s --replay {path}" % pid,
                "engine": engine,
                "level_claimed": {"category": level, "text": text,
                                  "design_ref": "DESIGN.md section 4, %s" % pid},
                "level_note": TRUST,
                "technique": "runtime monitoring: " + technique,
            })
        else:
            na.append({"property_id": pid,
                       "reason": "check designed (DESIGN.md section 4) but not built yet in this round; not claimed until it runs"})
    manifest = {
        "version": 1,
        "setup_cmd": "./setup.sh",
        "hooks": {
            "guard": "PY_TRIE_VERIF",
            "enable": "no source hooks: the checks run /repo's working tree unmodified (pure Python, importing is the build) and attach monitors from outside (caller-supplied db, sys.monitoring, icontract on the real classes); PY_TRIE_VERIF=1 is set by the harness for its own class patching and is read nowhere in /repo",
            "baseline_off_cmd": "cd /repo && /venv/bin/python -m pytest -ra -q -p no:cacheprovider --timeout=900 --continue-on-collection-errors",
            "source_commits": [],
            "add_only": True,
        },
        "engines": [{"name": n, "path": p, "kind_free_text": k,
                     "serves_properties": [c["property_id"] for c in checks if c["engine"] == n]}
                    for n, (p, k) in ENGINES.items()],
        "checks": checks,
        "not_applicable": na,
        "notes": "Technique family: runtime monitoring. exit 0 held / 1 VIOLATION / 2 INCONCLUSIVE / 3 MONITOR-ERROR. VERIF_SEED selects the PRNG seed, VERIF_REPO (default /repo) the tree under test. Known findings: known_findings.json.",
    }
    with open(os.path.join(HERE, "MANIFEST.json"), "w") as f:
        json.dump(manifest, f, indent=1)
        f.write("\n")
    print("claimed:", [c["property_id"] for c in checks])
    print("not yet:", [n["property_id"] for n in na])


if __name__ == "__main__":
    main()
