#!/venv/bin/python
"""Markdown table of the seeded changes (seeded/*/meta.json) for DESIGN.md section 7."""
import json, os, re
here = os.path.dirname(os.path.dirname(os.path.abspath(__file__)))
MISSED = {  # seeded change -> what was added to the check after it was missed
 "C05-b": "BaseException exits (KeyboardInterrupt / GeneratorExit / own BaseException subclass) of the block",
 "C17-a": "BaseException exits of batch_commit",
 "C08-b": "moving-root runner: root_node / traverse / traverse_from judged after every operation, batch commit and root_hash reassignment",
 "C11-a": "nested sub-segments hidden among 3+ distinct lengths (parent not the shortest)",
 "C13-a": "values that are hashes of nodes stored in the same database",
 "C14-b": "explicit b'' writes under a non-blank default",
 "C16-b": "list and Nibbles inputs to the HP functions and terminator helpers",
 "C18-b": "malformed nibble sequences that start with genuine Nibble members",
 "C01-c": "histories with unobserved runs of writes + undo routes that return to earlier roots through a batch",
 "C02-d": "operations attempted on an incomplete database inside C02 histories (caught by C07 before)",
 "C03-c": "moving-root proof completeness: same keys re-proved after batch commits and root_hash reassignment",
 "C04-c": "nested squash_changes blocks (refusal accepted, history must survive)",
 "C09-d": "two walks over two tries interleaved, each with its own TrieFrontierCache()",
 "C10-d": "one long-lived NodeIterator judged after every operation of histories that revisit states",
 "C13-d": "walks over partial (witness / root-only) databases before and between walks of the full one",
 "C14-c": "a second independent tree alive at the same time, reads interleaved",
 "C17-c": "the empty byte string as a buffered value",
}
print("| id | change (abridged) | needs | monitor(s) that fired | first run |")
print("|---|---|---|---|---|")
for i in sorted(os.listdir(os.path.join(here, "seeded"))):
    m = json.load(open(os.path.join(here, "seeded", i, "meta.json")))
    def short(t, n):
        t = re.sub(r"\s+", " ", t or "").replace("|", "/")
        return t if len(t) <= n else t[: n - 1].rsplit(" ", 1)[0] + " …"
    first = "missed → " + MISSED[i] if i in MISSED else "caught"
    print("| %s | %s | %s | %s | %s |" % (i, short(m["summary"], 150), short(m["needs_to_manifest"], 110),
                                      ", ".join(m["monitors_fired"][:3]), first))
