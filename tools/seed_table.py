#!/venv/bin/python
"""Markdown table of the seeded changes (seeded/*/meta.json) for DESIGN.md section 7."""
import json, os, re
here = os.path.dirname(os.path.dirname(os.path.abspath(__file__)))
MISSED = {  # seeded change -> what was added to the check after it was missed
 "C05-b": "BaseException exits (KeyboardInterrupt / GeneratorExit / own BaseException subclass) of the block",
 "C17-a": "BaseException exits of batch_commit",
 "C08-b": "moving-root runner: root_node / traverse / traverse_from judged after every operation, batch commit and root_hash reassignment",
 "C11-a": "nested sub-segments hidden among 3+ distinct lengths (parent not the shortest)",
 "C13-a": "values that are hashes of nodes stored in the same database",
 "C14-b": "explicit b'' writes under a non-blank default",
 "C16-b": "list and Nibbles inputs to the HP functions and terminator helpers",
 "C18-b": "malformed nibble sequences that start with genuine Nibble members",
 "C01-c": "histories with unobserved runs of writes + undo routes that return to earlier roots through a batch",
 "C02-d": "operations attempted on an incomplete database inside C02 histories (caught by C07 before)",
 "C03-c": "moving-root proof completeness: same keys re-proved after batch commits and root_hash reassignment",
 "C04-c": "nested squash_changes blocks (refusal accepted, history must survive)",
 "C09-d": "two walks over two tries interleaved, each with its own TrieFrontierCache()",
 "C10-d": "one long-lived NodeIterator judged after every operation of histories that revisit states",
 "C13-d": "walks over partial (witness / root-only) databases before and between walks of the full one",
 "C14-c": "a second independent tree alive at the same time, reads interleaved",
 "C17-c": "the empty byte string as a buffered value",
 # round 3
 "C01-e": "DEPTH: ladder histories (every prefix of a 36-48 byte key stored: paths of 70-100 nodes)",
 "C04-f": "SCALE: batches of 250-420 operations (well over 1024 buffered database entries)",
 "C05-e": "batches that end on a root assigned to batch.root_hash (an earlier root / a root whose body is not in the database)",
 "C05-f": "savepoints: an inner block on the batch trie, abandoned and caught inside the batch",
 "C06-e": "refused writes (non-bytes value, key leaving a stored path part-way) inside pruning histories",
 "C09-e": "monitor robustness: a met value that is not a byte string is a violation (was a monitor crash = exit 3)",
 "C09-f": "'from the root' also spelled traverse_from(root_node, prefix)",
 "C10-e": "several generators of one iterator alive at once (zip(keys(), values()), a walk paused around another)",
 "C11-e": "the single empty sub-segment explore(p, [()])",
 "C14-e": "histories carried on through objects re-opened with from_db",
 "C14-f": "values of 63 / 64 / 65 bytes (the size of an interior node), 64-byte default",
 "C15-f": "pattern keys (runs of equal bits: XORs that are long runs of ones), key sizes 7 and 9",
 "C16-e": "encoders handed parts of the wrong size must refuse or still round-trip",
 "C17-f": "blocks entered while the caller is handling an unrelated exception",
 "C18-f": "from_db with an out-of-range key_size",
 # round 4 (the checks had been strengthened from the round-4 brief before the changes arrived)
 "C01-h": "databases that are dict SUBCLASSES overriding the item protocol (dict.update / dict.get go around it)",
 "C04-h": "C04 schedules over such a dict subclass",
 "C05-h": "C05 cases over such a dict subclass",
 "C02-h": "the live trie written while an at_root snapshot of itself is open",
 "C07-g": "savepoint attempts inside C07's batches; the OUTER trie's reference counts compared too",
 "C09-h": "a walker that keeps the root node object and re-reads it only when root_hash changes",
 "C16-g": "decode_node(0x80): the blank node as a database holds it",
 "C16-h": "encoded paths and node items held in bytearray / memoryview",
 # round 5 (again after pre-emptive strengthening from the brief and from the agents' reports)
 "C10-j": "a fat ladder whose spine runs along nibble 0 (all 15 siblings of 72 levels pending: > 1024 prefixes)",
 "C12-j": "comb histories that first store the WHOLE comb (a full spine of branch nodes below a prefix)",
 "C13-i": "shrinking bounded by wall-clock (the 257-node ladder was generated and fired, but shrinking its 257 operations ran into the watchdog: INCONCLUSIVE instead of VIOLATION)",
 "C13-j": "the helpers called on an empty trie through a fresh copy of the blank hash",
 # round 6 (after pre-emptive strengthening from the round's brief)
 "C02-l": "keys and values held in a SUBCLASS of bytes (hexbytes.HexBytes style), the empty value included: equal to b'' but not identical",
 "C08-k": "paths held in other Sequence[int] types: deque, UserList, array('B'), memoryview",
 "C08-l": "'prefix + segment' composed as a caller writes it: plain-tuple (and Nibbles) prefix + the library's own sub-segment object",
 "C09-l": "key universe k600: 500-700-byte path-like keys that differ near the end (one extension of > 1000 nibbles)",
 "C11-k": "mark_all_complete lists that name a member twice, among them lists exactly as long as the fog is wide",
 "C12-k": "a fork: copy.copy of the trie object runs ahead through the next operations while the original is read (also added to the hexary history runner)",
 "C15-l": "update streams produced by a tree re-opened with from_db",
 "C18-k": "if_branch_valid asked to confirm an absence (value None) with an invalid key",
 # round 7 (one more change for 17 properties, "m"; no briefing beyond the property text)
 "C16-m": "the library's own sentinel byte strings (keccak(b''), keccak(0x80), 0x80, 32 zero bytes, ...) and their prefixed / extended / truncated forms handed to parse_node as a serialized node",
}
print("| id | change (abridged) | needs | monitor(s) that fired | first run |")
print("|---|---|---|---|---|")
for i in sorted(os.listdir(os.path.join(here, "seeded"))):
    m = json.load(open(os.path.join(here, "seeded", i, "meta.json")))
    def short(t, n):
        t = re.sub(r"\s+", " ", t or "").replace("|", "/")
        return t if len(t) <= n else t[: n - 1].rsplit(" ", 1)[0] + " …"
    first = "missed → " + MISSED[i] if i in MISSED else "caught"
    print("| %s | %s | %s | %s | %s |" % (i, short(m["summary"], 150), short(m["needs_to_manifest"], 110),
                                      ", ".join(m["monitors_fired"][:3]), first))
