#!/bin/sh
# Run every claimed check of a tier against /repo and summarise (regenerates evidence/).
# usage: tools/run_all.sh [quick|thorough] [seed]
HERE="$(cd "$(dirname "$0")/.." && pwd)"
TIER="${1:-quick}"
SEED="${2:-0}"
cd "$HERE" || exit 1
rc=0
for p in C01 C02 C03 C04 C05 C06 C07 C08 C09 C10 C11 C12 C13 C14 C15 C16 C17 C18; do
  [ -f "vt/props/$(echo $p | tr A-Z a-z).py" ] || continue
  out=$(VERIF_SEED=$SEED ./check $p --tier $TIER 2>&1); e=$?
  echo "$out" | head -1 | sed "s/^/[exit $e] /"
  if [ $e -ne 0 ]; then rc=1; echo "$out" | grep -E "VIOLATION|INCONCLUSIVE|MONITOR-ERROR|monitor=" | head -5; fi
done
exit $rc
