"""Reference binary trie: canonical kv / branch / leaf encoding built top-down from the
bit strings of the keys.  Own bit conversion and own key-path packing."""
from eth_hash.auto import keccak

BLANK_HASH = bytes.fromhex(
    "c5d2460186f7233c927e7db2dcc703c0e500b653ca82273b7bfad8045d85a470"
)


def bits(b):
    return tuple((x >> (7 - i)) & 1 for x in b for i in range(8))


def pack_path(bs):
    """Key path packing of a kv node, from the description in the binary trie spec:
    the bit string is left-padded to a multiple of 4; a flag nibble 00LL carries
    L = len mod 4; if the total is not byte aligned a further nibble 1000 is put
    in front."""
    n = len(bs)
    pad = (4 - n) % 4
    body = (0,) * pad + tuple(bs)
    flag = (0, 0, (n % 4) >> 1, (n % 4) & 1)
    allb = flag + body
    if len(allb) % 8:
        allb = (1, 0, 0, 0) + allb
    assert len(allb) % 8 == 0
    return bytes(
        sum(allb[i + j] << (7 - j) for j in range(8)) for i in range(0, len(allb), 8)
    )


def unpack_path(data):
    allb = bits(data)
    if allb[0] == 1:
        allb = allb[4:]
    n4 = allb[2] * 2 + allb[3]
    body = allb[4:]
    return tuple(body[(4 - n4) % 4:])


def _canon(items, i, nodes):
    if not items:
        return BLANK_HASH

    def save(n):
        h = keccak(n)
        nodes[h] = n
        return h

    if len(items) == 1 and len(items[0][0]) == i:
        return save(b"\x02" + items[0][1])
    j = i
    first = items[0][0]
    while all(len(k) > j for k, _ in items) and all(k[j] == first[j] for k, _ in items):
        j += 1
    if j > i:
        return save(b"\x00" + pack_path(first[i:j]) + _canon(items, j, nodes))
    left = [(k, v) for k, v in items if k[i] == 0]
    right = [(k, v) for k, v in items if k[i] == 1]
    return save(b"\x01" + _canon(left, i + 1, nodes) + _canon(right, i + 1, nodes))


class RefBin:
    """Canonical binary trie of a prefix-free {bytes: bytes} mapping."""

    def __init__(self, model):
        self.model = dict(model)
        self.nodes = {}
        items = sorted((bits(k), v) for k, v in self.model.items())
        self.root_hash = _canon(items, 0, self.nodes)

    def shape(self):
        """Structure signature (node kinds and kv path lengths), values abstracted."""

        def rec(h):
            if h == BLANK_HASH:
                return "_"
            n = self.nodes[h]
            if n[0] == 2:
                return "L"
            if n[0] == 1:
                return "B(%s,%s)" % (rec(n[1:33]), rec(n[33:]))
            return "K%d(%s)" % (len(unpack_path(n[1:-32])), rec(n[-32:]))

        return rec(self.root_hash)


def prefix_related(a, b):
    """a != b and one is a proper prefix of the other (byte strings)."""
    return a != b and (a.startswith(b) or b.startswith(a))
