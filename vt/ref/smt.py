"""Reference sparse Merkle tree: recursive root over {int path: value} with per-depth
default hashes.  Leaves are keccak(value); inner nodes keccak(left + right)."""
from eth_hash.auto import keccak


class RefSMT:
    def __init__(self, key_size, default):
        self.depth = key_size * 8
        self.key_size = key_size
        self.default = default
        dh = [None] * (self.depth + 1)
        dh[self.depth] = keccak(default)
        for d in range(self.depth - 1, -1, -1):
            dh[d] = keccak(dh[d + 1] + dh[d + 1])
        self.dh = dh

    def _rec(self, d, items):
        if not items:
            return self.dh[d]
        if d == self.depth:
            return keccak(items[0][1])
        bit = self.depth - 1 - d
        left = [(p, v) for p, v in items if not (p >> bit) & 1]
        right = [(p, v) for p, v in items if (p >> bit) & 1]
        return keccak(self._rec(d + 1, left) + self._rec(d + 1, right))

    def root(self, leaves):
        """leaves: {int path: value (already defaulted values may be omitted)}"""
        return self._rec(0, sorted(leaves.items()))

    def path_hashes(self, leaves, key):
        """hashes of the nodes on key's path at depth 1..depth (root -> leaf order)"""
        items = sorted(leaves.items())
        out = []
        for d in range(1, self.depth + 1):
            pre = key >> (self.depth - d)
            sub = [(p, v) for p, v in items if p >> (self.depth - d) == pre]
            out.append(self._rec(d, sub))
        return tuple(out)

    def sibling_hashes(self, leaves, key):
        """the branch (sibling at every depth 1..depth, root -> leaf order)"""
        items = sorted(leaves.items())
        out = []
        for d in range(1, self.depth + 1):
            pre = (key >> (self.depth - d)) ^ 1
            sub = [(p, v) for p, v in items if p >> (self.depth - d) == pre]
            out.append(self._rec(d, sub))
        return tuple(out)


class RefSMTState:
    """All node hashes of the tree over `leaves`, built level by level from the leaves up
    (O(n * depth) hashes); absent sub-trees take the per-depth default hash."""

    def __init__(self, ref, leaves):
        self.ref = ref
        D = ref.depth
        level = {k: keccak(v) for k, v in leaves.items()}
        H = {}
        for d in range(D, 0, -1):
            for p, h in level.items():
                H[(d, p)] = h
            nxt = {}
            for p in {q >> 1 for q in level}:
                left = level.get(p << 1, ref.dh[d])
                right = level.get((p << 1) | 1, ref.dh[d])
                nxt[p] = keccak(left + right)
            level = nxt
        self.H = H
        self.root = level.get(0, ref.dh[0])

    def _at(self, d, p):
        return self.H.get((d, p), self.ref.dh[d])

    def path_hashes(self, key):
        D = self.ref.depth
        return tuple(self._at(d, key >> (D - d)) for d in range(1, D + 1))

    def sibling_hashes(self, key):
        D = self.ref.depth
        return tuple(self._at(d, (key >> (D - d)) ^ 1) for d in range(1, D + 1))
