"""Pure-Python Keccak-256 (original Keccak padding 0x01, as used by Ethereum).

Used only to cross-check the `eth_hash` backend that both the code under test and
the reference models rely on; never used on a hot path.
"""

_RC = [
    0x0000000000000001, 0x0000000000008082, 0x800000000000808A, 0x8000000080008000,
    0x000000000000808B, 0x0000000080000001, 0x8000000080008081, 0x8000000000008009,
    0x000000000000008A, 0x0000000000000088, 0x0000000080008009, 0x000000008000000A,
    0x000000008000808B, 0x800000000000008B, 0x8000000000008089, 0x8000000000008003,
    0x8000000000008002, 0x8000000000000080, 0x000000000000800A, 0x800000008000000A,
    0x8000000080008081, 0x8000000000008080, 0x0000000080000001, 0x8000000080008008,
]
_ROT = [
    [0, 36, 3, 41, 18],
    [1, 44, 10, 45, 2],
    [62, 6, 43, 15, 61],
    [28, 55, 25, 21, 56],
    [27, 20, 39, 8, 14],
]
_M = (1 << 64) - 1


def _rol(x, n):
    n %= 64
    return ((x << n) | (x >> (64 - n))) & _M if n else x


def _f(a):
    for rc in _RC:
        c = [a[x][0] ^ a[x][1] ^ a[x][2] ^ a[x][3] ^ a[x][4] for x in range(5)]
        d = [c[(x - 1) % 5] ^ _rol(c[(x + 1) % 5], 1) for x in range(5)]
        a = [[a[x][y] ^ d[x] for y in range(5)] for x in range(5)]
        b = [[0] * 5 for _ in range(5)]
        for x in range(5):
            for y in range(5):
                b[y][(2 * x + 3 * y) % 5] = _rol(a[x][y], _ROT[x][y])
        a = [
            [b[x][y] ^ ((~b[(x + 1) % 5][y]) & b[(x + 2) % 5][y]) for y in range(5)]
            for x in range(5)
        ]
        a[0][0] ^= rc
    return a


def keccak256(data: bytes) -> bytes:
    rate = 136
    p = bytearray(data)
    p.append(0x01)
    while len(p) % rate:
        p.append(0)
    p[-1] |= 0x80
    a = [[0] * 5 for _ in range(5)]
    for off in range(0, len(p), rate):
        blk = p[off:off + rate]
        for i in range(rate // 8):
            a[i % 5][i // 5] ^= int.from_bytes(blk[8 * i:8 * i + 8], "little")
        a = _f(a)
    out = b"".join(a[i % 5][i // 5].to_bytes(8, "little") for i in range(4))
    return out
