"""Reference Merkle-Patricia trie: Yellow Paper appendix D, built TOP-DOWN from the key set.

This is the oracle for the hexary properties. It deliberately shares nothing with the
code it judges: own RLP, own hex-prefix, and a recursive construction from the sorted
key set (the code under test is an incremental insert/delete algorithm).  The only
shared ingredient is the keccak backend (cross-checked against vt.ref.keccak).
"""
from collections import Counter

from eth_hash.auto import keccak

BLANK_ROOT = bytes.fromhex(
    "56e81f171bcc55a6ff8345e692c0f86e5b48e01b996cadc001622fb5e363b421"
)


# ----------------------------------------------------------------------------- codecs
def _len_prefix(n, off):
    if n < 56:
        return bytes([off + n])
    b = n.to_bytes((n.bit_length() + 7) // 8, "big")
    return bytes([off + 55 + len(b)]) + b


def rlp_enc(x):
    if isinstance(x, (bytes, bytearray)):
        x = bytes(x)
        if len(x) == 1 and x[0] < 0x80:
            return x
        return _len_prefix(len(x), 0x80) + x
    body = b"".join(rlp_enc(i) for i in x)
    return _len_prefix(len(body), 0xC0) + body


def hp(nibbles, terminator):
    """Yellow Paper HP(x, t)."""
    f = 2 if terminator else 0
    if len(nibbles) % 2:
        out = [f + 1] + list(nibbles)
    else:
        out = [f, 0] + list(nibbles)
    return bytes(out[i] * 16 + out[i + 1] for i in range(0, len(out), 2))


def nibs(b):
    r = []
    for x in b:
        r.append(x >> 4)
        r.append(x & 15)
    return tuple(r)


def unnibs(n):
    assert len(n) % 2 == 0
    return bytes(n[i] * 16 + n[i + 1] for i in range(0, len(n), 2))


# ------------------------------------------------------------------------------ nodes
class Node:
    """kind in {'leaf','ext','branch'}; path: nibble tuple (leaf/ext);
    child: Node (ext); children: list of 16 Node|None (branch); value: bytes."""

    __slots__ = ("kind", "path", "child", "children", "value", "_raw", "_enc")

    def __init__(self, kind, path=(), child=None, children=None, value=b""):
        self.kind = kind
        self.path = tuple(path)
        self.child = child
        self.children = children
        self.value = value
        self._raw = None
        self._enc = None

    def raw(self):
        """The node as the nested list structure that gets RLP encoded."""
        if self._raw is None:
            if self.kind == "leaf":
                self._raw = [hp(self.path, True), self.value]
            elif self.kind == "ext":
                self._raw = [hp(self.path, False), self.child.ref()]
            else:
                self._raw = [c.ref() if c is not None else b"" for c in self.children] + [
                    self.value
                ]
        return self._raw

    def enc(self):
        if self._enc is None:
            self._enc = rlp_enc(self.raw())
        return self._enc

    def hashed(self):
        return len(self.enc()) >= 32

    def ref(self):
        """n(J, i): the node itself when its RLP is shorter than 32 bytes, else keccak."""
        return keccak(self.enc()) if self.hashed() else self.raw()

    def hash(self):
        return keccak(self.enc())


def _build(items, i):
    # items: sorted list of (nibbles, value), all sharing the first i nibbles
    if not items:
        return None
    if len(items) == 1:
        k, v = items[0]
        return Node("leaf", path=k[i:], value=v)
    j = i
    first = items[0][0]
    while all(len(k) > j for k, _ in items) and all(k[j] == first[j] for k, _ in items):
        j += 1
    if j > i:
        return Node("ext", path=first[i:j], child=_build(items, j))
    children = [None] * 16
    value = b""
    buckets = [[] for _ in range(16)]
    for k, v in items:
        if len(k) == i:
            value = v
        else:
            buckets[k[i]].append((k, v))
    for n in range(16):
        children[n] = _build(buckets[n], i + 1)
    return Node("branch", children=children, value=value)


class RefTrie:
    """Canonical trie of a {bytes: bytes} mapping (values non-empty)."""

    def __init__(self, model):
        self.model = dict(model)
        self.items = sorted((nibs(k), v) for k, v in self.model.items())
        self.tree = _build(self.items, 0)
        self._reach = None

    # -- root
    @property
    def root_hash(self):
        if self.tree is None:
            return BLANK_ROOT
        return self.tree.hash()

    @property
    def root_rlp(self):
        return rlp_enc(b"") if self.tree is None else self.tree.enc()

    # -- enumeration
    def preorder(self):
        """(prefix, Node) parents before children, children left to right."""
        out = []

        def rec(node, prefix):
            if node is None:
                return
            out.append((prefix, node))
            if node.kind == "ext":
                rec(node.child, prefix + node.path)
            elif node.kind == "branch":
                for n in range(16):
                    rec(node.children[n], prefix + (n,))

        rec(self.tree, ())
        return out

    def reach(self):
        """Counter {hash: number of references in the trie viewed as a tree} over the
        stored (hashed) nodes: every node whose RLP is >= 32 bytes, plus the root."""
        if self._reach is None:
            c = Counter()
            bodies = {}
            for prefix, node in self.preorder():
                if node is self.tree or node.hashed():
                    h = node.hash()
                    c[h] += 1
                    bodies[h] = node.enc()
            self._reach = (c, bodies)
        return self._reach[0]

    def bodies(self):
        self.reach()
        return self._reach[1]

    # -- navigation
    def locate(self, path):
        """What the canonical trie has at nibble path `path`:
        ('blank',) | ('node', Node) | ('partial', Node, traversed_len, tail)"""
        path = tuple(path)
        node = self.tree
        i = 0
        while True:
            if node is None:
                return ("blank",)
            if i == len(path):
                return ("node", node)
            rem = path[i:]
            if node.kind == "leaf":
                if len(node.path) >= len(rem) and node.path[: len(rem)] == rem:
                    return ("partial", node, i, rem)
                return ("blank",)
            if node.kind == "ext":
                p = node.path
                if rem[: len(p)] == p:
                    i += len(p)
                    node = node.child
                    continue
                if p[: len(rem)] == rem:
                    return ("partial", node, i, rem)
                return ("blank",)
            node = node.children[rem[0]]
            i += 1

    def path_nodes(self, key_nibbles):
        """[(prefix, Node)] visited when resolving key (what a complete proof contains)."""
        key = tuple(key_nibbles)
        out = []
        node = self.tree
        i = 0
        while node is not None:
            out.append((key[:i], node))
            if node.kind == "leaf":
                break
            if node.kind == "ext":
                p = node.path
                if key[i: i + len(p)] != p:
                    break
                i += len(p)
                node = node.child
            else:
                if i == len(key):
                    break
                node = node.children[key[i]]
                i += 1
        return out

    def has_prefix(self, path):
        path = tuple(path)
        return any(k[: len(path)] == path for k, _ in self.items)

    # -- descriptions
    def shape(self):
        """Structure with values abstracted to embedded/hashed: used to count distinct
        canonical shapes seen by a monitor."""

        def rec(node):
            if node is None:
                return "_"
            h = "H" if node.hashed() else "e"
            if node.kind == "leaf":
                return "L%d%s" % (len(node.path), h)
            if node.kind == "ext":
                return "E%d%s(%s)" % (len(node.path), h, rec(node.child))
            return "B%s%s[%s]" % (
                "v" if node.value else "",
                h,
                ",".join(rec(c) for c in node.children),
            )

        return rec(self.tree)

    def features(self):
        f = set()
        t = self.tree
        if t is None:
            f.add("empty")
            return f
        f.add(t.kind + "_at_root")
        if not t.hashed():
            f.add("short_root")
        for prefix, node in self.preorder():
            n = len(node.enc())
            if n in (30, 31, 32, 33):
                f.add("rlp_len_%d" % n)
            if n >= 56:
                f.add("rlp_long_form")
            if node is not t and not node.hashed():
                f.add("embedded_child")
            if node.kind == "branch" and node.value:
                f.add("branch_value")
            if node.kind == "ext":
                f.add("extension")
        if any(v > 1 for v in self.reach().values()):
            f.add("shared_node")
        ks = [k for k, _ in self.items]
        if () in ks:
            f.add("empty_key")
        for a in ks:
            if any(a != b and b[: len(a)] == a for b in ks):
                f.add("key_prefix_of_key")
                break
        return f


def annot(node):
    """(sub_segments, value, suffix, type-name) the public annotated node must show."""
    if node is None:
        return ((), b"", (), "BLANK")
    if node.kind == "leaf":
        return ((), node.value, tuple(node.path), "LEAF")
    if node.kind == "ext":
        return ((tuple(node.path),), b"", (), "EXTENSION")
    return (
        tuple((n,) for n in range(16) if node.children[n] is not None),
        node.value,
        (),
        "BRANCH",
    )


def root(model):
    return RefTrie(model).root_hash


# Known-answer vectors from ethereum/tests TrieTests (trietest.json / trieanyorder.json).
KATS = {
    "singleItem": (
        {b"A": b"a" * 50},
        "d23786fb4a010da3ce639d66d5e904a11dbc02746d1ce25029e53290cabf28ab",
    ),
    "dogs": (
        {b"doe": b"reindeer", b"dog": b"puppy", b"dogglesworth": b"cat"},
        "8aad789dff2f538bca5d8ea56e8abe10f4c7ba3a5dea95fea4cd6e7c3a1168d3",
    ),
    "puppy": (
        {b"do": b"verb", b"horse": b"stallion", b"doge": b"coin", b"dog": b"puppy"},
        "5991bb8c6514148a29db676a14ac506cd2cd5775ace63c30a4fe457715e9ac84",
    ),
    "foo": (
        {b"foo": b"bar", b"food": b"bass"},
        "17beaa1648bafa633cda809c90c04af50fc8aed3cb40d16efbddee6fdf63c4c3",
    ),
    "smallValues": (
        {b"be": b"e", b"dog": b"puppy", b"bed": b"d"},
        "3f67c7a47520f79faa29255d2d3c084a7a6df0453116ed7232ff10277a8be68b",
    ),
    "testy": (
        {b"test": b"test", b"te": b"testy"},
        "8452568af70d8d140f58d941338542f645fcca50094b20f3c3d8c3df49337928",
    ),
    "hex": (
        {
            bytes.fromhex("0045"): bytes.fromhex("0123456789"),
            bytes.fromhex("4500"): bytes.fromhex("9876543210"),
        },
        "285505fcabe84badc8aa310e2aae17eddc7d120aabec8a476902c8184b3a3503",
    ),
    "empty": ({}, "56e81f171bcc55a6ff8345e692c0f86e5b48e01b996cadc001622fb5e363b421"),
}


def self_test():
    """The reference must reproduce the external known answers; a mismatch is a
    monitor error (a broken oracle), never a finding."""
    for name, (m, exp) in KATS.items():
        got = root(m).hex()
        if got != exp:
            raise AssertionError("reference MPT disagrees with vector %s" % name)
    return len(KATS)
