"""Engine `binary`: histories of set / delete / delete_subtrie on the real BinaryTrie over a
RecordingDB, with a dict model carrying the refusal rule (a key that is a proper prefix or an
extension of a stored key cannot be stored)."""
import zlib

from eth_hash.auto import keccak
from trie import BinaryTrie
from trie.exceptions import NodeOverrideError

from vt.core import Raised, Violation, cut, hx, unhx
from vt.monitor.db import RecordingDB, TraceViolation
from vt.ref.bintrie import prefix_related

ALPHA = [0x00, 0x01, 0x7F, 0x80, 0xFF]


def append_only_spec(ctx=None):
    def check(db, op, key, value):
        if op in ("del", "pop", "clear"):
            raise TraceViolation("bin-db-delete", "BinaryTrie issued %s(%s) on the database" % (op, hx(key)))
        if op == "set":
            old = db.raw().get(key)
            if old is not None and old != value:
                raise TraceViolation("bin-db-entry-changed", "existing entry %s overwritten with different bytes" % hx(key))
            if keccak(value) != key:
                raise TraceViolation("bin-db-not-content-addressed", "write under %s of a value hashing to %s" % (hx(key), hx(keccak(value))))
            if ctx is not None:
                ctx.count("db_writes_checked")
    return check


class KeyGen:
    def __init__(self, rnd, mode=None):
        self.rnd = rnd
        self.mode = mode or rnd.choice(["var", "var", "fix2", "k32", "dense", "dense",
                                        "var", "var", "fix2", "k32", "dense", "dense", "k40", "comb", "comb"])
        if self.mode == "comb":
            # a prefix p followed by one byte of a COMB (ff, fe, fc, f8, f0, e0, c0, 80, 00 or its
            # mirror 00, 01, 03, ...): below p the trie is a spine of branch nodes down to a
            # leaf, on the right (or left) side all the way
            self.comb_prefix = bytes(rnd.choice(ALPHA) for _ in range(rnd.randint(1, 2)))
            self.comb = rnd.choice([[0xFF, 0xFE, 0xFC, 0xF8, 0xF0, 0xE0, 0xC0, 0x80, 0x00],
                                    [0x00, 0x01, 0x03, 0x07, 0x0F, 0x1F, 0x3F, 0x7F, 0xFF]])
        if self.mode in ("k32", "k40"):
            # k40: keys LONGER than a hash (33..40 bytes): kv nodes whose packed key path
            # alone exceeds 32 bytes
            nb = 32 if self.mode == "k32" else rnd.choice([33, 34, 40])
            W = 8 * nb
            base = bytes(rnd.randrange(256) for _ in range(nb))
            self.pool = [base]
            bi = int.from_bytes(base, "big")
            for _ in range(rnd.randint(3, 8)):
                # share exactly nbits leading bits with the base key
                nbits = rnd.randrange(0, W)
                keep = ((1 << W) - 1) ^ ((1 << (W - nbits)) - 1)
                low = rnd.getrandbits(W - 1 - nbits) if nbits < W - 1 else 0
                flip = ((bi >> (W - 1 - nbits)) & 1) ^ 1
                other = (bi & keep) | (flip << (W - 1 - nbits)) | low
                self.pool.append(other.to_bytes(nb, "big"))

    def key(self):
        rnd = self.rnd
        if self.mode == "comb":
            if rnd.random() < 0.15:
                return bytes(rnd.choice(ALPHA) for _ in range(len(self.comb_prefix) + 1))
            return self.comb_prefix + bytes([rnd.choice(self.comb)])
        if self.mode == "fix2":
            if rnd.random() < 0.3:
                # same tail under another first byte (one bit apart): identical sub-tries
                return bytes([rnd.choice([0x00, 0x01, 0x80, 0x81]), 0x55])
            return bytes(rnd.choice(ALPHA) for _ in range(2))
        if self.mode == "dense":
            # neighbouring byte values: kv nodes that start at the last bit of a byte
            return bytes(rnd.choice([0, 1, 2, 3, 0xFE, 0xFF]) for _ in range(rnd.randint(1, 2)))
        if self.mode in ("k32", "k40"):
            return rnd.choice(self.pool)
        return bytes(rnd.choice(ALPHA) for _ in range(rnd.randint(1, 3)))


def gen_ops(rnd, n, mode=None):
    kg = KeyGen(rnd, mode)
    keys = set()
    ops = []
    # a small pool of values, so that equal values (and with them byte-identical sub-tries under
    # different prefixes) are common
    pool = [(bytes([rnd.randrange(1, 256)]) * rnd.choice([1, 2, 3, 31, 32, 33])).hex() for _ in range(rnd.randint(2, 4))]
    if kg.mode == "comb":
        # the whole comb first (in random order): a full spine of branch nodes below the prefix
        comb = [kg.comb_prefix + bytes([c]) for c in kg.comb]
        rnd.shuffle(comb)
        for k in comb:
            ops.append(["set", k.hex(), (bytes([rnd.randrange(1, 256)]) * rnd.choice([1, 2, 33])).hex()])
            keys.add(k)
    for _ in range(n):
        r = rnd.random()
        if keys and rnd.random() < 0.4:
            k = rnd.choice(sorted(keys))
        else:
            k = kg.key()
        if r < 0.55:
            if rnd.random() < 0.12:
                # a value that is itself the hash of a node in the same database (the trie's
                # current root, or a current interior node) - like a storage root kept as a value
                vx = rnd.choice(["@root", "@node"])
            elif rnd.random() < 0.5:
                vx = rnd.choice(pool)
            else:
                vx = (bytes([rnd.randrange(1, 256)]) * rnd.choice([1, 2, 3, 31, 32, 33])).hex()
            ops.append(["set", k.hex(), vx])
            if not any(prefix_related(k, s) for s in keys):
                keys.add(k)
        elif r < 0.75:
            ops.append(["del", k.hex()])
            keys.discard(k)
        elif r < 0.8:
            ops.append(["sete", k.hex()])
            keys.discard(k)
        else:
            # prefix for delete_subtrie: present prefix, absent, too long, too short
            c = rnd.random()
            if keys and c < 0.5:
                s = rnd.choice(sorted(keys))
                p = s[: rnd.randint(1, len(s))]
            elif keys and c < 0.7:
                p = rnd.choice(sorted(keys)) + bytes([rnd.choice(ALPHA)])
            else:
                p = kg.key()[: rnd.randint(1, 3)]
            ops.append(["dsub", p.hex()])
            keys = {s for s in keys if not s.startswith(p)}
    return {"ops": ops, "mode": kg.mode}


def resolve_value(trie, spec, ctx=None):
    """hex string, or "@root" / "@node": the hash of a node currently stored in the trie's own
    database (32 bytes that are ALSO a database key)"""
    if not spec.startswith("@"):
        return unhx(spec)
    from trie.constants import BLANK_HASH

    if trie.root_hash == BLANK_HASH:
        return b"\x07" * 32
    if ctx is not None:
        ctx.count("value_is_node_hash")
    if spec == "@root":
        return trie.root_hash
    raw = trie.db.raw() if hasattr(trie.db, "raw") else trie.db
    return min(raw)  # deterministic choice of some stored node's hash


def gen_ladder(rnd, nbytes=32):
    """SCALE: a key and all its one-bit-flipped neighbours (8*nbytes + 1 keys): the branch of the
    base key is a ladder of 8*nbytes + 1 nodes"""
    base = int.from_bytes(bytes(rnd.randrange(256) for _ in range(nbytes)), "big")
    ks = [base] + [base ^ (1 << i) for i in range(8 * nbytes)]
    rnd.shuffle(ks)
    ops = [["set", k.to_bytes(nbytes, "big").hex(), bytes([1 + i % 250]).hex()] for i, k in enumerate(ks)]
    return {"ops": ops, "mode": "ladder"}


class HexLike(bytes):
    """a subclass of bytes, like hexbytes.HexBytes"""


def dict_syntax(op):
    """Every operation has a method spelling and a dict-syntax spelling (trie[k] = v, del trie[k]);
    which one a history uses is a function of the operation itself, so replays agree."""
    return zlib.crc32(repr(op[:3]).encode()) % 3 == 0


def apply(trie, model, op, ctx=None):
    """Apply one op to the real trie and to the model, enforcing the refusal rule and
    'a call that raises leaves root and contents unchanged' (root part; contents are checked
    by the caller's sweep).  Returns a tag describing what happened."""
    kind = op[0]
    k = unhx(op[1])
    before_root = trie.root_hash
    # keys and values of a SUBCLASS of bytes (hexbytes.HexBytes style) are byte strings too
    sub = zlib.crc32(repr(op[:3]).encode()) % 4 == 1
    if sub:
        k = HexLike(k)
    if kind == "set":
        v = resolve_value(trie, op[2], ctx)
        if sub:
            v = HexLike(v)
        conflict = [s for s in model if prefix_related(k, s)]
        r = cut(trie.__setitem__ if dict_syntax(op) else trie.set, k, v, expect=(NodeOverrideError,))
        if isinstance(r, Raised):
            if not conflict:
                raise Violation("bin-set-refused", "set(%s) refused with NodeOverrideError although no stored key is prefix-related (keys %r)" % (hx(k), [hx(s) for s in model]))
            tag = "set_refused_key_is_prefix" if any(s.startswith(k) for s in conflict) else "set_refused_key_is_extension"
        else:
            if conflict:
                raise Violation("bin-set-accepted-conflict", "set(%s) accepted although %s is stored (one is a proper prefix of the other)" % (hx(k), hx(conflict[0])))
            tag = "set_overwrite" if k in model else "set_new"
            model[k] = v
    elif kind in ("del", "sete"):
        if kind == "del":
            r = cut(trie.__delitem__ if dict_syntax(op) else trie.delete, k, expect=(NodeOverrideError,))
        else:
            r = cut(trie.__setitem__ if dict_syntax(op) else trie.set, k, HexLike(b"") if sub else b"", expect=(NodeOverrideError,))
        if isinstance(r, Raised):
            if k in model:
                raise Violation("bin-delete-refused", "delete of the stored key %s refused" % hx(k))
            tag = "delete_absent_refused"
        else:
            tag = "delete_present" if k in model else "delete_absent"
            model.pop(k, None)
    elif kind == "dsub":
        hit = [s for s in model if s.startswith(k)]
        r = cut(trie.delete_subtrie, k, expect=(NodeOverrideError,))
        if isinstance(r, Raised):
            if hit:
                raise Violation("bin-dsub-refused", "delete_subtrie(%s) refused although %d stored key(s) start with it" % (hx(k), len(hit)))
            tag = "dsub_absent_refused"
        else:
            for s in hit:
                del model[s]
            tag = "dsub_present" if hit else "dsub_absent"
    else:
        raise ValueError(kind)
    if isinstance(r, Raised) and trie.root_hash != before_root:
        raise Violation("bin-raise-changed-root", "%s(%s) raised NodeOverrideError but the root hash changed" % (kind, hx(k)))
    if ctx is not None:
        ctx.count(tag)
        if kind != "dsub" and dict_syntax(op):
            ctx.count("dict_syntax_ops")
    return tag


class MinimalDB:
    """A database that offers only what a mapping must: [] read / write / delete and `in`.
    No get(), setdefault(), pop(), keys(), items(), update(): the repository uses none of them on
    the database of a BinaryTrie (or of the branch helpers)."""

    def __init__(self):
        self._d = {}

    def __getitem__(self, key):
        return self._d[key]

    def __setitem__(self, key, value):
        self._d[key] = value

    def __delitem__(self, key):
        del self._d[key]

    def __contains__(self, key):
        return key in self._d

    def raw(self):          # harness side only
        return self._d


def new_trie(ctx=None, minimal=False):
    from trie.constants import BLANK_HASH

    blank = bytes(bytearray(BLANK_HASH))      # equal to the blank hash, but not the same object
    if minimal:
        db = MinimalDB()
        if ctx is not None:
            ctx.count("tries_over_a_minimal_mapping")
        return BinaryTrie(db, blank), db
    db = RecordingDB()
    db.record = False
    db.checkers.append(append_only_spec(ctx))
    return BinaryTrie(db, blank), db


def probes(rnd, model, kg=None, extra=3):
    out = set(model)
    for k in model:
        for i in range(1, len(k)):
            if len(k) <= 4 or rnd.random() < 0.15:
                out.add(k[:i])
        out.add(k + bytes([rnd.choice(ALPHA)]))
        i = rnd.randrange(len(k))
        out.add(k[:i] + bytes([k[i] ^ (1 << rnd.randrange(8))]) + k[i + 1:])
    for _ in range(extra):
        out.add(bytes(rnd.choice(ALPHA) for _ in range(rnd.randint(1, 3))))
    return sorted(out)
