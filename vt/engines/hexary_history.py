"""Engine `hexary_history`: generated operation histories replayed on the real HexaryTrie
over a RecordingDB, with a dict shadow model updated at the return event of every mutator
and pluggable monitors evaluated after every operation.

Case format (JSON):
  {"engine": "hh", "prune": bool, "pseed": int, "ops": [op, ...]}
  op = ["set", key_hex, value_hex, syntax]        syntax 0: method, 1: dict syntax
     | ["del", key_hex, syntax]
     | ["sete", key_hex, syntax]                  set(key, b'')
     | ["batch", [op, ...], abort, exc?]          abort: null (commit) | i (caller exception
                                                  after i operations of the block); exc:
                                                  index into ABORT_EXC (Exception subclass,
                                                  BaseException subclass, KeyboardInterrupt,
                                                  GeneratorExit), default 0
Batches are never nested (ScratchDB has no pop(): committing a batch opened on a batch
trie was never supported by the code, DESIGN.md section 5).
"""
import random
import zlib

from trie import HexaryTrie

from vt import gen
from vt.core import Raised, Violation, cut, hx, unhx
from vt.monitor.db import RecordingDB
from vt.ref.mpt import BLANK_ROOT, RefTrie, nibs, rlp_enc


class Boom(Exception):
    """The caller's own exception, raised inside a squash_changes block."""


class FalsyBoom(Exception):
    """An exception whose INSTANCE is falsy (like an aggregate of zero errors): `if exc:` is not
    the same as `if exc is not None:`."""

    def __bool__(self):
        return False

    def __len__(self):
        return 0


class Abandon(Exception):
    """Not raised inside the block: marks a block whose context manager is entered by hand
    and then simply dropped (never exited) and garbage-collected."""


class DictShim:
    """Harness-side view of a REAL dict handed to the trie as its database (no recording, no
    subclass: `type(db) is dict`)."""

    def __init__(self):
        self.d = {}
        self._hidden = {}
        self.label = None
        self.checkers = []
        self.pending_trace_violation = None
        self.events = []
        self.writes = self.reads = self.deletes = 0

    def raw(self):
        return self.d

    def snapshot(self):
        return dict(self.d)

    def reset_counts(self):
        pass

    def hide(self, keys):
        for k in keys:
            if k in self.d:
                self._hidden[k] = self.d.pop(k)

    def supply(self, key):
        if key in self._hidden:
            self.d[key] = self._hidden.pop(key)

    @property
    def hidden(self):
        return set(self._hidden)


class BoomBase(BaseException):
    """A caller exception that is not an Exception (like KeyboardInterrupt, SystemExit,
    GeneratorExit, asyncio.CancelledError): leaving the block by it is still 'left by an
    exception'."""


# ways a caller can leave a with-block exceptionally; index = optional 4th field of a batch op
class PrefixDict(dict):
    """A dict SUBCLASS that overrides the item protocol (it keeps every entry under a prefixed
    key, as a store shared with other data would): whatever goes around __setitem__ /
    __getitem__ / __delitem__ / __contains__ / pop / get - dict.update(), dict.get() ... -
    misses the entries.  Harness-side helpers: raw(), snapshot(), hide(), supply()."""

    P = b"trie-node:"

    def __init__(self):
        super().__init__()
        self._hidden = {}
        self.label = None
        self.checkers = []
        self.pending_trace_violation = None
        self.events = []
        self.writes = self.reads = self.deletes = 0

    def __getitem__(self, key):
        return dict.__getitem__(self, self.P + key)

    def __setitem__(self, key, value):
        dict.__setitem__(self, self.P + key, value)

    def __delitem__(self, key):
        dict.__delitem__(self, self.P + key)

    def __contains__(self, key):
        return dict.__contains__(self, self.P + key)

    def pop(self, key, *default):
        return dict.pop(self, self.P + key, *default)

    # get(), setdefault(), update() are NOT overridden (as in many real dict subclasses): they
    # are dict's own and go around the overridden item protocol.  The repository uses only
    # [] read / write / delete, `in` and pop() on a database it is handed.

    # harness side
    def raw(self):
        n = len(self.P)
        return {k[n:]: v for k, v in dict.items(self)}

    snapshot = raw

    def reset_counts(self):
        pass

    def hide(self, keys):
        for k in keys:
            if dict.__contains__(self, self.P + k):
                self._hidden[k] = dict.pop(self, self.P + k)

    def supply(self, key):
        if key in self._hidden:
            dict.__setitem__(self, self.P + key, self._hidden.pop(key))

    @property
    def hidden(self):
        return set(self._hidden)


class CallersKeyError(KeyError):
    """The caller's own KeyError (a failed lookup in its own dict), raised inside the block: the
    library handles KeyError from the database in many places - this one is not the database's."""


ABORT_EXC = [Boom, BoomBase, KeyboardInterrupt, GeneratorExit, Abandon, FalsyBoom, CallersKeyError, KeyError]
ALL_ABORTS = tuple(ABORT_EXC)


def abort_exc(op):
    """exception class a ["batch", sub, abort, exc?] op is left by"""
    return ABORT_EXC[op[3] % len(ABORT_EXC)] if len(op) > 3 and op[3] is not None else Boom


def nz(d):
    return {k: v for k, v in d.items() if v}


# ------------------------------------------------------------------------- generation
def gen_op(rnd, universe, pool, model_keys):
    """One plain operation, biased towards revisiting stored keys."""
    r = rnd.random()
    stored = sorted(model_keys)
    if stored and rnd.random() < 0.45:
        k = rnd.choice(stored)
    else:
        k = universe.key()
    syn = rnd.randrange(2)
    if r < 0.58:
        return ["set", k.hex(), rnd.choice(pool).hex(), syn]
    if r < 0.85:
        return ["del", k.hex(), syn]
    return ["sete", k.hex(), syn]


def _track(op, keys):
    if op[0] == "set":
        keys.add(unhx(op[1]))
    elif op[0] in ("del", "sete"):
        keys.discard(unhx(op[1]))


def _track_vals(op, d):
    if op[0] == "set":
        d[op[1]] = op[2]
    elif op[0] in ("del", "sete"):
        d.pop(op[1], None)


def gen_history(rnd, nops, prune=None, batch_p=0.25, kind=None, abort_p=0.35, undo_p=0.12, fail_p=0.0,
                sp_p=0.0, bad_p=0.0):
    """undo_p: probability that the next unit takes the contents BACK to an earlier state (the
    one before the last unit, or an older one) by another route - a committed batch or a run of
    plain operations - so that earlier root hashes are reached again."""
    universe = gen.KeyUniverse(rnd, kind)
    pool = gen.value_pool(rnd)
    keys = set()
    ops = []
    cur = {}
    states = [{}]

    def note(unit):
        if unit[0] == "batch":
            if unit[2] is None:
                for o in unit[1]:
                    _track_vals(o, cur)
        else:
            _track_vals(unit, cur)
        states.append(dict(cur))

    for _ in range(nops):
        if len(states) > 2 and rnd.random() < undo_p:
            target = states[-2] if rnd.random() < 0.6 else rnd.choice(states[:-1])
            diff = [["set", k, v, rnd.randrange(2)] for k, v in sorted(target.items()) if cur.get(k) != v]
            diff += [["del", k, rnd.randrange(2)] for k in sorted(cur) if k not in target]
            if 0 < len(diff) <= 5:
                rnd.shuffle(diff)
                if batch_p > 0 and rnd.random() < 0.6:
                    ops.append(["batch", diff, None])
                    note(ops[-1])
                else:
                    for o in diff:
                        ops.append(o)
                        note(o)
                keys = {unhx(k) for k in cur}
                continue
        if fail_p and rnd.random() < fail_p:
            # an operation attempted on an incomplete database (it fails atomically or succeeds)
            o = gen_op(rnd, universe, pool, keys)
            ops.append(["fail", o, rnd.choice([0.2, 0.5, 1.0]), rnd.randrange(1 << 30)])
            # whether it takes effect is only known at run time: the generator's idea of the
            # contents (used to bias later keys, and for undo routes) is reset to "unknown"
            states[:] = [dict(cur)]
            continue
        if rnd.random() < batch_p:
            n = rnd.randint(0, 5)
            bkeys = set(keys)
            sub = []
            for _ in range(n):
                if sp_p and rnd.random() < sp_p:
                    # a savepoint inside the batch: an inner block that is abandoned
                    sk = set(bkeys)
                    sub.append(["sp", [gen_op(rnd, universe, pool, sk) for _ in range(rnd.randint(1, 3))]])
                    continue
                if bad_p and rnd.random() < bad_p:
                    sub.append(["badset", universe.key().hex(), rnd.randrange(5)])
                    continue
                o = gen_op(rnd, universe, pool, bkeys)
                _track(o, bkeys)
                sub.append(o)
            abort = rnd.randint(0, n) if rnd.random() < abort_p else None
            if abort is not None and rnd.random() < 0.5:
                ops.append(["batch", sub, abort, rnd.randrange(1, len(ABORT_EXC))])
            else:
                ops.append(["batch", sub, abort])
            if abort is None:
                keys = bkeys
            note(ops[-1])
        elif bad_p and rnd.random() < bad_p:
            if keys and rnd.random() < 0.8:
                s = rnd.choice(sorted(keys))
                r = rnd.random()
                if r < 0.3 or not s:
                    k = s + bytes([rnd.randrange(256)])                      # runs past a stored key
                elif r < 0.8:
                    i = rnd.randrange(len(s))                                # leaves a stored path part-way
                    k = s[:i] + bytes([s[i] ^ rnd.choice([0x01, 0x10, 0x0F, 0x80])]) + s[i + 1:]
                else:
                    k = s[: rnd.randrange(len(s))]                           # ends inside a stored path
            else:
                k = universe.key()
            ops.append(["badset", k.hex(), rnd.randrange(5)])
        else:
            o = gen_op(rnd, universe, pool, keys)
            _track(o, keys)
            ops.append(o)
            note(o)
    return {
        "engine": "hh",
        "prune": bool(rnd.randrange(2)) if prune is None else prune,
        "pseed": rnd.randrange(1 << 30),
        "ops": ops,
        "universe": universe.kind,
        "in_handler": rnd.random() < 0.25,
        "late_enter": rnd.random() < 0.2,
        "under_snapshot": rnd.random() < 0.25,
        "foreign_batch": rnd.random() < 0.2,
        "rc": "counter" if rnd.random() < 0.2 else "default",
        "db": rnd.choice(["dict", "dict", "dictsub", "dictsub"]) if rnd.random() < 0.25 else "recording",
        "fork": rnd.random() < 0.15,
    }


_THRESHOLD_CANDIDATES = [bytes([c]) for c in (0x00, 0x01, 0x7F, 0x80, 0x81, 0xFF)] + [
    bytes([c]) * L for L in range(2, 60) for c in (0x00, 0x61, 0x80)]


def threshold_value(rnd, leaf_nibbles):
    """A value for which the leaf [HP(leaf_nibbles, terminator), value] encodes to exactly 31, 32
    or 33 bytes - computed with the REFERENCE RLP, for whatever length the leaf's own path has
    (the embedding threshold depends on both, and on whether a one-byte value is >= 0x80)."""
    from vt.ref.mpt import hp as ref_hp

    key = ref_hp(list(leaf_nibbles), True)
    good = [v for v in _THRESHOLD_CANDIDATES if 31 <= len(rlp_enc([key, v])) <= 33]
    return rnd.choice(good) if good else rnd.choice(_THRESHOLD_CANDIDATES)


def gen_threshold_history(rnd, prune=None):
    """THRESHOLD family: two keys of n bytes (n = 1..34) that share d leading nibbles and then
    part, so that both hang as leaves of r = 2n-d-1 nibbles under one branch; the first one's
    value is chosen so that ITS LEAF is exactly 31 / 32 / 33 bytes of RLP.  Then: overwrite it
    with another such value, delete the sibling (the leaf is merged upwards and changes size),
    re-insert, delete - each step audited by the caller's monitors."""
    n = rnd.randint(1, 34)
    d = rnd.randrange(0, 2 * n)
    base = bytearray(rnd.randrange(256) for _ in range(n))
    other = bytearray(base)
    byte, low = divmod(d, 2)
    if low:
        other[byte] = (base[byte] & 0xF0) | ((base[byte] + 1 + rnd.randrange(15)) & 0x0F)
    else:
        other[byte] = ((((base[byte] >> 4) + 1 + rnd.randrange(15)) & 0x0F) << 4) | (base[byte] & 0x0F)
    for j in range(byte + 1, n):
        other[j] = rnd.randrange(256)
    k1, k2 = bytes(base), bytes(other)
    leaf = nibs(k1)[d + 1:]
    whole = nibs(k1)
    w = make_w = bytes([rnd.randrange(256)]) * rnd.choice([1, 3, 40])
    ops = [
        ["set", k1.hex(), threshold_value(rnd, leaf).hex(), rnd.randrange(2)],
        ["set", k2.hex(), w.hex(), rnd.randrange(2)],
        ["set", k1.hex(), threshold_value(rnd, leaf).hex(), rnd.randrange(2)],
        ["del", k2.hex(), rnd.randrange(2)],                                 # k1's leaf becomes the root leaf
        ["set", k1.hex(), threshold_value(rnd, whole).hex(), rnd.randrange(2)],
        ["set", k2.hex(), threshold_value(rnd, nibs(k2)[d + 1:]).hex(), rnd.randrange(2)],
        ["batch", [["set", k1.hex(), threshold_value(rnd, leaf).hex(), 0], ["del", k1.hex(), 0],
                   ["set", k1.hex(), threshold_value(rnd, leaf).hex(), 1]], None],
        ["del", k1.hex(), rnd.randrange(2)],
        ["del", k2.hex(), rnd.randrange(2)],
    ]
    return {"engine": "hh", "prune": bool(rnd.randrange(2)) if prune is None else prune,
            "pseed": rnd.randrange(1 << 30), "ops": ops, "universe": "threshold", "threshold": [n, d]}


def gen_bulk_history(rnd, tier="quick", **kw):
    """SCALE: a long history (80-160 operations, thorough up to 400) over a dense universe, few
    batches: tries with dozens of keys, branches with all 16 slots in use, deep shared paths."""
    n = rnd.randint(80, 160) if tier == "quick" else rnd.randint(150, 400)
    kind = rnd.choice(["nibbly", "nibbly", "fix3", "k32", "adv", "k40", "ladder", "ladder"])
    if kind == "ladder":
        # DEPTH: first store every prefix of one long key (two nodes per byte: a path of 70-100
        # nodes), in random order, then carry on with ordinary operations over those keys
        top = bytes(rnd.randrange(256) for _ in range(rnd.choice([36, 40, 48])))
        lens = list(range(len(top) + 1))
        rnd.shuffle(lens)
        pre = [["set", top[:i].hex(), bytes([rnd.randrange(1, 256)] * rnd.choice([1, 1, 2, 40])).hex(), rnd.randrange(2)] for i in lens]
        case = gen_history(rnd, 20, kind="adv", batch_p=0.05, undo_p=0.0, **kw)
        tail = []
        for _ in range(n // 3):
            k = top[: rnd.randint(0, len(top))]
            r = rnd.random()
            if r < 0.5:
                tail.append(["set", k.hex(), bytes([rnd.randrange(1, 256)] * rnd.choice([1, 3, 33])).hex(), rnd.randrange(2)])
            elif r < 0.8:
                tail.append(["del", k.hex(), rnd.randrange(2)])
            else:
                tail.append(["set", (k + bytes([rnd.randrange(256)])).hex(), b"x".hex(), 0])
        case["ops"] = pre + tail + case["ops"]
        case["universe"] = "ladder"
    else:
        case = gen_history(rnd, n, kind=kind, batch_p=0.05, undo_p=0.03, **kw)
    case["bulk"] = True
    return case


# -------------------------------------------------------------------------- execution
class HexLike(bytes):
    """a subclass of bytes, like hexbytes.HexBytes"""


def apply_plain(trie, model, op, expect=()):
    """Apply one plain op to a real trie (through cut) and to the model.  An exception of a
    type listed in `expect` is returned as Raised and the model is left alone."""
    kind = op[0]
    if kind == "sp":
        # ["sp", [plain ops]]: a squash_changes block opened on this trie (inside a batch: on
        # the batch trie, used as a savepoint), left by an exception that the caller catches
        # at once: nothing may have happened
        m2 = dict(model)

        def savepoint():
            try:
                with trie.squash_changes() as inner:
                    for o in op[1]:
                        apply_plain(inner, m2, o)
                    raise Boom()
            except Boom:
                pass

        cut(savepoint)
        return None
    if kind == "badset":
        # ["badset", key_hex, which]: a write with a non-bytes value: refused, nothing happens
        bad = [None, "str", 7, ["x"], bytearray(b"ab")][op[2] % 5]
        res = cut(trie.set, unhx(op[1]), bad, expect=(Exception,))
        if not isinstance(res, Raised):
            raise Violation("badarg-accepted", "set(%s, %r) was accepted" % (op[1], bad))
        return None
    k = unhx(op[1])
    # byte strings of a SUBCLASS of bytes (what hexbytes.HexBytes, and so web3, hands out) are
    # byte strings: some operations - chosen by the operation itself, so that replays agree -
    # pass their key and value that way, the empty value included (equal to b"", not identical)
    sub = zlib.crc32(repr(op[:3]).encode()) % 4 == 0
    if sub:
        k = HexLike(k)
    if kind == "set":
        v = unhx(op[2])
        if sub:
            v = HexLike(v)
        res = cut(trie.__setitem__ if op[3] else trie.set, k, v, expect=expect)
        if isinstance(res, Raised):
            return res
        model[k] = v
    elif kind == "del":
        res = cut(trie.__delitem__ if op[2] else trie.delete, k, expect=expect)
        if isinstance(res, Raised):
            return res
        model.pop(k, None)
    elif kind == "sete":
        res = cut(trie.__setitem__ if op[2] else trie.set, k, HexLike(b"") if sub else b"", expect=expect)
        if isinstance(res, Raised):
            return res
        model.pop(k, None)
    else:
        raise ValueError(kind)
    return None


class Runner:
    """Replays one history. Sub-classes / callers hook the after_* methods."""

    def __init__(self, case, ctx):
        self.case = case
        self.ctx = ctx
        self.prune = case["prune"]
        # the blank root handed to the constructor is an EQUAL BUT NOT IDENTICAL bytes object
        # (as a root read back from storage would be)
        blank = bytes(bytearray(BLANK_ROOT))
        rc_kw = {}
        if self.prune and case.get("rc") == "counter":
            # the caller hands in the mapping that keeps the counts: a collections.Counter
            # (a dict subclass whose update() ADDS)
            from collections import Counter

            rc_kw = {"ref_count": Counter()}
            ctx.count("ref_counts_in_a_counter")
        if case.get("db") == "dict":
            self.db = DictShim()
            self.trie = HexaryTrie(self.db.d, blank, prune=self.prune, **rc_kw)
            ctx.count("histories_over_a_real_dict")
        elif case.get("db") == "dictsub":
            self.db = PrefixDict()
            self.trie = HexaryTrie(self.db, blank, prune=self.prune, **rc_kw)
            ctx.count("histories_over_a_dict_subclass")
        else:
            self.db = RecordingDB()
            self.trie = HexaryTrie(self.db, blank, prune=self.prune, **rc_kw)
        self.model = {}
        self.rnd = random.Random(case.get("pseed", 0))
        self.universe = None
        self.step = 0
        self.forks_done = 0
        self.in_batch = False

    # hooks -------------------------------------------------------------------
    def after_op(self, op):
        """after every top-level operation (plain op, or a whole batch)"""

    def after_batch_op(self, btrie, bmodel, op):
        """after every operation inside an open batch"""

    def before_batch(self, op):
        pass

    def after_batch(self, op, outcome, bmodel, final_root):
        """outcome: 'commit' | 'abort'"""

    def run_fork(self):
        """A shallow copy of the (non-pruning) trie object - same database, same root, independent
        afterwards - runs ahead through the next plain operations of the history.  The copy
        answers for its contents; the original, which has not moved, for its own."""
        import copy

        fork, fmodel = copy.copy(self.trie), dict(self.model)
        ahead = [o for o in self.case["ops"][self.step - 1: self.step + 3] if o[0] in ("set", "del", "sete")]
        for o in ahead:
            apply_plain(fork, fmodel, o)
        both = dict(self.model)
        both.update(fmodel)
        probes = gen.probe_keys(self.rnd, both)
        if len(probes) > 80:
            probes = self.rnd.sample(probes, 80)
        lookup_sweep(fork, fmodel, probes, self.ctx, where="copy.copy of the trie after %d writes of its own: " % len(ahead))
        lookup_sweep(self.trie, self.model, probes, self.ctx, where="original trie after a copy.copy of it was written: ")
        root_audit(fork, self.db.raw(), fmodel, self.ctx, where="copy.copy of the trie: ")
        root_audit(self.trie, self.db.raw(), self.model, self.ctx, where="original trie after a copy.copy of it was written: ")
        self.ctx.count("forked_copies")

    # driver ------------------------------------------------------------------
    def run(self):
        for op in self.case["ops"]:
            self.step += 1
            if (self.case.get("fork") and not self.prune and self.step % 4 == 2 and op[0] in ("set", "del", "sete")
                    and self.forks_done < 3):
                self.forks_done += 1
                self.run_fork()
            if op[0] == "batch":
                self.run_batch(op)
            elif op[0] == "fail":
                self.run_failing(op)
            elif (not self.prune and self.case.get("under_snapshot") and op[0] in ("set", "del", "sete")
                  and self.step % 4 == 1):
                # the live trie is written while an at_root snapshot OF ITSELF is open
                self.db.label = (self.step, op[0])
                before_model = dict(self.model)
                with self.trie.at_root(self.trie.root_hash) as snap:
                    apply_plain(self.trie, self.model, op)
                    for k_, v_ in list(before_model.items())[:3]:
                        if cut(snap.get, k_) != v_:
                            raise Violation("snapshot-contents", "an at_root snapshot changed when the live trie was written")
                self.ctx.count("op_" + op[0])
                self.ctx.count("live_writes_under_open_snapshot")
            else:
                self.db.label = (self.step, op[0])
                apply_plain(self.trie, self.model, op)
                self.ctx.count("op_" + op[0])
            self.check_trace()
            self.after_op(op)
        return self

    def check_trace(self):
        tv = self.db.pending_trace_violation
        if tv is not None:
            raise Violation(tv.monitor, tv.detail)

    def run_failing(self, op):
        """["fail", plain_op, density, seed]: the operation is attempted while a random subset of
        the node bodies is absent from the database; the bodies come back afterwards.  If the
        call raises MissingTrieNode it did not happen (atomic failure); if it returns it did."""
        from trie.exceptions import MissingTrieNode

        _, plain, density, seed = op
        r = random.Random(seed)
        keys = sorted(self.db.raw())
        hide = [h for h in keys if r.random() < density]
        self.db.hide(hide)
        m2 = dict(self.model)
        try:
            self.db.label = (self.step, "fail:" + plain[0])
            res = apply_plain(self.trie, m2, plain, expect=(MissingTrieNode,))
        finally:
            for h in hide:
                self.db.supply(h)
        if isinstance(res, Raised):
            self.ctx.count("op_failed_missing_node")
        else:
            self.model = m2
            self.ctx.count("op_succeeded_despite_missing_nodes")

    def run_batch(self, op):
        _, sub, abort = op[:3]
        exc = abort_exc(op)
        bmodel = dict(self.model)
        state = {"final_root": None}
        self.before_batch(op)

        def abandoned():
            # enter by hand, work, then drop the context manager without ever exiting it
            import gc

            hold = [self.trie.squash_changes()]
            hold.append(hold[0].__enter__())
            self.in_batch = True
            for i, o in enumerate(sub):
                if abort == i:
                    break
                apply_plain(hold[1], bmodel, o)
                self.after_batch_op(hold[1], bmodel, o)
            del hold[:]
            gc.collect()
            self.ctx.count("batch_abandoned_unexited")
            raise Abandon()

        late = None
        if self.case.get("late_enter") and self.model and abort is None and self.step % 3 == 0:
            # the context manager is created, THEN the outer trie is written, THEN the block is
            # entered: the batch starts from the contents at entry
            late = self.trie.squash_changes()
            k0 = sorted(self.model)[self.rnd.randrange(len(self.model))]
            apply_plain(self.trie, self.model, ["set", k0.hex(), (self.model[k0][:40] + b"!").hex(), 0])
            bmodel.clear()
            bmodel.update(self.model)
            self.ctx.count("batch_entered_late")

        def block():
            if abort is not None and exc is Abandon:
                return abandoned()
            with (late if late is not None else self.trie.squash_changes()) as b:
                self.in_batch = True
                for i, o in enumerate(sub):
                    if abort == i:
                        raise exc()
                    apply_plain(b, bmodel, o)
                    self.after_batch_op(b, bmodel, o)
                    if i == 0 and self.case.get("foreign_batch"):
                        # while this block is open, an unrelated trie on ANOTHER database runs
                        # a batch of its own from start to finish
                        ft = HexaryTrie({}, prune=bool(self.step % 2))
                        with ft.squash_changes() as fb:
                            fb.set(b"foreign", b"f" * 40)
                        if cut(ft.get, b"foreign") != b"f" * 40:
                            raise Violation("lookup-get", "an unrelated trie lost the write of its own batch (run while another trie's batch was open)")
                        self.ctx.count("foreign_batches_inside_a_block")
                if abort == len(sub):
                    raise exc()
                state["final_root"] = b.root_hash

        def block_in_handler():
            # the same block, entered while the caller is handling an unrelated exception
            # (sys.exc_info() is not empty although nothing goes wrong inside the block)
            try:
                raise RuntimeError("unrelated exception being handled by the caller")
            except RuntimeError:
                return block()

        in_handler = bool(self.case.get("in_handler")) and self.step % 2 == 0
        if in_handler:
            self.ctx.count("batch_inside_except_handler")
        try:
            res = cut(block_in_handler if in_handler else block, expect=ALL_ABORTS)
        finally:
            self.in_batch = False
        if isinstance(res, Raised):
            if abort is None:
                raise Violation("unexpected-exception", "Boom without abort?")
            self.ctx.count("batch_abort")
            if exc is not Boom:
                self.ctx.count("batch_abort_baseexception")
            self.after_batch(op, "abort", None, None)
        else:
            if abort is not None:
                raise Violation(
                    "batch-swallowed-exception",
                    "the caller's exception raised inside squash_changes after %d ops did "
                    "not propagate" % abort,
                )
            self.model = bmodel
            self.ctx.count("batch_commit")
            self.after_batch(op, "commit", bmodel, state["final_root"])


# ------------------------------------------------------------------- reusable monitors
def lookup_sweep(trie, model, probes, ctx, where=""):
    """C01 deciding monitor: all four lookup spellings against the model."""
    for k in probes:
        exp = model.get(k, b"")
        got = cut(trie.get, k)
        if got != exp:
            raise Violation("lookup-get", "%sget(%s)=%s, model says %s" % (where, hx(k), hx(got), hx(exp)))
        if not isinstance(got, bytes):
            raise Violation("lookup-get", "%sget(%s) returned a %s, not a byte string" % (where, hx(k), type(got).__name__))
        got = cut(trie.__getitem__, k)
        if got != exp:
            raise Violation("lookup-getitem", "%strie[%s]=%s, model says %s" % (where, hx(k), hx(got), hx(exp)))
        if not isinstance(got, bytes):
            raise Violation("lookup-getitem", "%strie[%s] returned a %s, not a byte string" % (where, hx(k), type(got).__name__))
        e = cut(trie.exists, k)
        if e is not (k in model):
            raise Violation("lookup-exists", "%sexists(%s)=%r, model says %r" % (where, hx(k), e, k in model))
        e = cut(trie.__contains__, k)
        if e is not (k in model):
            raise Violation("lookup-contains", "%s(%s in trie)=%r, model says %r" % (where, hx(k), e, k in model))
        ctx.count("probes")
        if k in model:
            ctx.count("probe_stored")
        elif any(s != k and s.startswith(k) for s in model):
            ctx.count("probe_proper_prefix")
        elif any(s != k and k.startswith(s) for s in model):
            ctx.count("probe_extension")
        else:
            ctx.count("probe_absent_other")


def root_audit(trie, db_raw, model, ctx, ref=None, where=""):
    """C02 deciding monitor: canonical root, stored root body."""
    from eth_hash.auto import keccak

    ref = ref or RefTrie(model)
    got = trie.root_hash
    if got != ref.root_hash:
        raise Violation("root-canonical", "%sroot_hash=%s, canonical root of the %d-key model is %s" % (
            where, hx(got), len(model), hx(ref.root_hash)))
    if not model:
        if got != BLANK_ROOT:
            raise Violation("root-blank", "%sempty mapping has root %s" % (where, hx(got)))
    else:
        body = db_raw.get(got)
        if body is None:
            raise Violation("root-stored", "%sroot %s has no entry in the database" % (where, hx(got)))
        if body != ref.root_rlp or keccak(body) != got:
            raise Violation("root-stored", "%sdb[root] is not the RLP of the canonical root node" % where)
    ctx.count("root_audits")
    return ref


def prune_audit(trie, db_raw, model, ctx, ref=None, where=""):
    """C06 deciding monitor: db == reachable hashed nodes (from the MODEL), counts true."""
    ref = ref or RefTrie(model)
    reach = ref.reach()
    have = set(db_raw)
    want = set(reach)
    if have != want:
        missing = want - have
        extra = have - want
        raise Violation(
            "prune-db-exact",
            "%sdatabase has %d entries, reference trie of the model reaches %d hashed nodes: "
            "%d missing, %d left over" % (where, len(have), len(want), len(missing), len(extra)),
        )
    rc = nz(dict(trie.ref_count))
    if rc != dict(reach):
        diff = {hx(k): (rc.get(k), reach.get(k)) for k in set(rc) | set(reach) if rc.get(k) != reach.get(k)}
        raise Violation(
            "prune-refcount",
            "%sreported ref_count differs from the reference multiset at %d node(s): %s (reported, true)"
            % (where, len(diff), str(sorted(diff.items())[:3])),
        )
    regen = cut(trie.regenerate_ref_count)
    if nz(dict(regen)) != dict(reach):
        raise Violation("prune-regenerate", "%sregenerate_ref_count() differs from the reference multiset" % where)
    ctx.count("prune_audits")
    if any(v >= 2 for v in reach.values()):
        ctx.count("prune_audits_shared")
    return ref
