"""Shared pieces of the traversal / iterator / walk / proof workloads: building a trie from a
short history of plain operations, comparing public annotated nodes with reference nodes,
and generating nibble paths aimed at a given content."""
from trie import HexaryTrie

from vt import gen
from vt.core import cut, unhx
from vt.engines import hexary_history as hh
from vt.monitor.db import RecordingDB
from vt.ref.mpt import RefTrie, annot, nibs


def gen_build(rnd, maxkeys=10, kind=None, prune=None, deletes=True, bulk=False):
    """A case fragment {"prune", "hist"}: plain ops whose result is the trie under study.
    bulk: SCALE - 40..maxkeys keys over a dense universe (all 16 branch slots, deep tries)."""
    if bulk and kind is None:
        kind = rnd.choice(["nibbly", "nibbly", "fix3", "k32", "adv"])
    universe = gen.KeyUniverse(rnd, kind)
    pool = gen.value_pool(rnd)
    keys = set()
    hist = []
    for _ in range(rnd.randint(40, max(41, maxkeys)) if bulk else rnd.randint(0, maxkeys)):
        k = universe.key()
        hist.append(["set", k.hex(), rnd.choice(pool).hex(), rnd.randrange(2)])
        keys.add(k)
        if deletes and keys and rnd.random() < 0.15:
            d = rnd.choice(sorted(keys))
            hist.append(["del", d.hex(), rnd.randrange(2)])
            keys.discard(d)
    return {"prune": bool(rnd.randrange(2)) if prune is None else prune, "hist": hist,
            "universe": universe.kind}


def prime(t, op):
    """Read-only calls issued between the operations that build the trie under study.  Their
    results are not judged here (lookups on a complete database must not raise: that part is
    enforced by cut); they exist so that anything the implementation remembers from an earlier
    state - a cached root node, memoised paths, iterator state - is populated BEFORE the trie
    changes, and staleness shows up in the audit that follows the build."""
    from trie.exceptions import TraversedPartialPath
    from trie.iter import NodeIterator

    from vt.core import cut, unhx
    from vt.ref.mpt import nibs

    k = unhx(op[1])
    rn = cut(lambda: t.root_node)
    cut(t.get, k)
    cut(t.exists, k)
    proof = cut(t.get_proof, k)
    tr = cut(t.traverse, tuple(nibs(k)), expect=(TraversedPartialPath,))
    cut(NodeIterator(t).next, k)
    # ... and the caller scribbles on what it was handed: results are the caller's to keep,
    # nothing the library holds on to may be reachable through them
    vandalize(getattr(rn, "raw", None))
    for n in proof:
        vandalize(n)
    vandalize(getattr(tr, "raw", None) if not hasattr(tr, "exc") else getattr(tr.exc.node, "raw", None))


def vandalize(x, depth=0):
    """mutate every mutable list reachable from a result, in place"""
    if isinstance(x, list) and depth < 4:
        for item in list(x):
            vandalize(item, depth + 1)
        for i in range(len(x)):
            if isinstance(x[i], (bytes, bytearray)):
                x[i] = b"\xde\xad" + bytes(x[i])[:3]
        x.append(b"scribbled")


def build(case):
    db = RecordingDB()
    db.record = False
    t = HexaryTrie(db, prune=case.get("prune", False))
    model = {}
    for i, op in enumerate(case["hist"]):
        hh.apply_plain(t, model, op)
        if case.get("prime", True) and i % 2 == 0:
            prime(t, op)
    return t, db, model, RefTrie(model)


def pub(hn):
    """public annotated node -> comparable tuple"""
    return (
        tuple(tuple(int(x) for x in s) for s in hn.sub_segments),
        bytes(hn.value),
        tuple(int(x) for x in hn.suffix),
        hn.node_type.name,
    )


def exp_annot(node):
    return annot(node)


def key_paths(rnd, ref, alternatives=2):
    """Nibble paths aimed at the content: every prefix of every stored key, each extended
    by 1-2 nibbles, a divergence at every position."""
    paths = {()}
    for k, _ in ref.items:
        positions = range(len(k) + 1)
        if len(k) > 80:
            # very long keys: the ends and a sample of the middle (every position would be
            # quadratic work for nothing new)
            positions = sorted(set(list(range(6)) + list(range(len(k) - 5, len(k) + 1)) + [255, 256, 257, 258]
                                   + rnd.sample(range(len(k) + 1), 30)) & set(range(len(k) + 1)))
        for i in positions:
            paths.add(k[:i])
            alts = list(range(16)) if alternatives >= 15 else rnd.sample(range(16), alternatives)
            for a in alts:
                paths.add(k[:i] + (a,))
        paths.add(k + (0,))
        paths.add(k + (rnd.randrange(16), rnd.randrange(16)))
    return sorted(paths)
