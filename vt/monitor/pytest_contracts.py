"""pytest plugin: replays the repository's own test-suite (hypothesis-driven for the most part)
as an EXTRA WORKLOAD under the run-time contracts of vt.monitor.contracts.

The verdicts of the tests themselves are ignored (they are the pinned suite's business); what is
reported is what the contracts observed: evaluations per contract and every broken one with its
witness.  Contracts run in RECORD mode so that a broken contract does not abort the test that is
driving the code.

Used as:  python -m pytest -p vt.monitor.pytest_contracts ...   with VT_CONTRACTS_OUT=<json path>
"""
import json
import os


def pytest_configure(config):
    from vt import env

    env.load_repo()
    env.ensure_deps()
    from vt.monitor import contracts

    contracts.MODE["raise"] = False
    config._vt_contracts_ok = contracts.install()


def pytest_sessionfinish(session, exitstatus):
    from vt.monitor import contracts

    out = os.environ.get("VT_CONTRACTS_OUT")
    if not out:
        return
    rep = contracts.report()
    rep["installed"] = bool(getattr(session.config, "_vt_contracts_ok", False))
    rep["tests_collected"] = getattr(session, "testscollected", None)
    rep["exitstatus"] = int(exitstatus)
    with open(out, "w") as f:
        json.dump(rep, f)
