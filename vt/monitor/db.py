"""Database-boundary recorder and fault injector.

A trie's only environment is the mapping handed in as `db`.  RecordingDB is that mapping:
every read / write / delete / membership test is appended to an event log (with the label
of the API call in progress) and offered to online trace checkers *as it happens*.
Faults: hide a set of keys (reads raise KeyError, membership is false) and/or make the
n-th write raise InjectedWriteFailure.
"""


class InjectedWriteFailure(Exception):
    pass


class TraceViolation(Exception):
    """Raised by an online trace checker from inside a db event. Carries the monitor
    name; the harness converts it into a Violation (it passes through the code under
    test like a database error would, which is exactly the point of observation)."""

    def __init__(self, monitor, detail):
        super().__init__("%s: %s" % (monitor, detail))
        self.monitor = monitor
        self.detail = detail


class InjectedKeyError(KeyError, InjectedWriteFailure):
    """An injected write failure that IS a KeyError (a store that reports a refused write that
    way): the library treats KeyError from READS specially in many places - a failed write is
    not one of them."""


class RecordingDB:
    def __init__(self, initial=None, name="db"):
        self._d = dict(initial or {})
        self.name = name
        self.events = []          # (op, key, label)
        self.record = True
        self.label = None         # set by the harness: API call in progress
        self.checkers = []        # callables (db, op, key, value) -> None or raise
        self._hidden = {}         # node bodies taken away by hide(): physically absent
        self.fail_write_at = None  # 1-based index of the write that raises
        self.fail_write_exc = InjectedWriteFailure
        self.writes = 0
        self.reads = 0
        self.deletes = 0
        self.injected_failures = 0
        self.pending_trace_violation = None

    # -- bookkeeping
    def _event(self, op, key, value=None):
        if self.record:
            self.events.append((op, key, self.label))
        for chk in self.checkers:
            try:
                chk(self, op, key, value)
            except TraceViolation as tv:
                # remember it: the code under test may swallow the exception
                if self.pending_trace_violation is None:
                    self.pending_trace_violation = tv
                raise

    def reset_counts(self):
        self.writes = self.reads = self.deletes = self.injected_failures = 0

    def snapshot(self):
        return dict(self._d)

    # -- missing-node faults: hidden entries are physically absent until supplied
    def hide(self, keys):
        for k in keys:
            if k in self._d:
                self._hidden[k] = self._d.pop(k)

    def supply(self, key):
        if key in self._hidden:
            self._d[key] = self._hidden.pop(key)

    @property
    def hidden(self):
        return set(self._hidden)

    def complete(self):
        """contents as they would be with nothing hidden"""
        d = dict(self._hidden)
        d.update(self._d)
        return d

    def raw(self):
        return self._d

    # -- mapping protocol used by the code under test
    def __getitem__(self, key):
        self.reads += 1
        self._event("get", key)
        return self._d[key]

    def __setitem__(self, key, value):
        self.writes += 1
        self._event("set", key, value)
        if self.fail_write_at is not None and self.writes == self.fail_write_at:
            self.injected_failures += 1
            raise self.fail_write_exc("injected failure of write #%d" % self.writes)
        self._d[key] = value
        self._hidden.pop(key, None)

    def __delitem__(self, key):
        self.deletes += 1
        self._event("del", key)
        del self._d[key]

    def __contains__(self, key):
        self._event("in", key)
        return key in self._d

    def pop(self, key, *default):
        self.deletes += 1
        self._event("pop", key)
        return self._d.pop(key, *default)

    def get(self, key, default=None):
        self.reads += 1
        self._event("get", key)
        return self._d.get(key, default)

    def setdefault(self, key, default=None):
        # a read, and a write only when the key is absent (the mapping protocol's semantics)
        self.reads += 1
        self._event("get", key)
        if key in self._d:
            return self._d[key]
        self[key] = default
        return default

    def keys(self):
        return list(self._d.keys())

    def items(self):
        return list(self._d.items())

    def values(self):
        return list(self._d.values())

    def __iter__(self):
        return iter(self.keys())

    def __len__(self):
        return len(self.keys())

    def copy(self):
        return dict(self.items())

    def update(self, other):
        for k, v in dict(other).items():
            self[k] = v

    def clear(self):
        self._event("clear", None)
        self._d.clear()

    def __repr__(self):
        return "RecordingDB(%s, %d entries)" % (self.name, len(self._d))
