"""Runs (a part of) the repository's own test-suite as an extra workload under the run-time
contracts and returns what the contracts observed."""
import json
import os
import subprocess
import tempfile

from vt import env


def run(test_files, hypothesis_seed=0, timeout=1800, extra_args=()):
    """-> dict(evaluations, skipped, broken, installed, ...) or dict(error=...)"""
    env.ensure_deps()
    fd, out = tempfile.mkstemp(prefix="vt-contracts-", suffix=".json", dir=os.path.join(env.VERIF, ".work"))
    os.close(fd)
    os.unlink(out)
    cenv = env.child_env()
    cenv["PYTHONPATH"] = os.pathsep.join([env.VERIF, env.DEPS, cenv.get("PYTHONPATH", "")])
    cenv["VT_CONTRACTS_OUT"] = out
    files = [f for f in test_files if os.path.exists(os.path.join(env.REPO, f))]
    if not files:
        return {"error": "none of the test files exist: %r" % (test_files,)}
    cmd = [env.PYTHON, "-m", "pytest", "-q", "-p", "no:cacheprovider", "-p", "vt.monitor.pytest_contracts",
           "--hypothesis-seed=%d" % hypothesis_seed, "--timeout=900", "--no-header", "-o", "addopts="] + list(extra_args) + files
    try:
        p = subprocess.run(cmd, cwd=env.REPO, env=cenv, stdout=subprocess.PIPE, stderr=subprocess.STDOUT,
                           timeout=timeout, text=True)
    except subprocess.TimeoutExpired:
        return {"error": "watchdog: repository tests under contracts did not finish in %ds" % timeout}
    if not os.path.exists(out):
        return {"error": "no contract report written; pytest said: %s" % p.stdout[-1500:]}
    with open(out) as f:
        rep = json.load(f)
    os.unlink(out)
    rep["pytest_tail"] = p.stdout[-300:]
    rep["files"] = files
    rep["hypothesis_seed"] = hypothesis_seed
    return rep
