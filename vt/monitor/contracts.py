"""Run-time contracts (icontract) bound onto the REAL functions and classes of the repository.

These are the context-free consequences of the properties: they need no shadow model, so they
are evaluated on every call made by whatever workload is running - the generated histories of
the checks and, in the thorough tier, the repository's own (hypothesis-driven) test-suite
replayed as an extra workload (vt/monitor/pytest_contracts.py).

Every contract is a NAMED condition function with an explicit error class (icontract 2.7 turns
a violated lambda in call form into a SyntaxError).  Each counts its evaluations in EVALS; a
contract with zero evaluations decides nothing (reported, floor in the owning check).
Conditions that cannot be evaluated (the post-state read raises because the workload emptied
the database, ...) count as "skipped" and hold.

Two modes: RAISE (a broken contract raises ContractBroken from the call it observes; used
inside the checks, where vt.core.cut turns it into a violation) and RECORD (the witness is
appended to BROKEN and the call continues; used under pytest, where a raising contract would
abort the test that is the workload).

Names imported with `from m import f` before decoration are re-bound in every loaded trie.*
module (rebind()).
"""
import sys
from collections import Counter

EVALS = Counter()
SKIPPED = Counter()
BROKEN = []
MODE = {"raise": True}
_installed = {"done": False, "available": None}


class ContractBroken(Exception):
    """A run-time contract on a real function of the repository did not hold."""


def _verdict(name, ok, detail):
    EVALS[name] += 1
    if ok:
        return True
    if len(BROKEN) < 50:
        BROKEN.append({"contract": name, "detail": detail()[:600]})
    return not MODE["raise"]


def _skip(name):
    SKIPPED[name] += 1
    return True


def _h(x):
    if isinstance(x, (bytes, bytearray)):
        return bytes(x).hex()
    return repr(x)


def install():
    """Bind the contracts.  Returns False (and binds nothing) when icontract is not
    importable."""
    if _installed["done"]:
        return _installed["available"]
    _installed["done"] = True
    try:
        import icontract
    except Exception:
        _installed["available"] = False
        return False
    _installed["available"] = True

    import trie.binary as m_binary
    import trie.fog as m_fog
    import trie.hexary as m_hexary
    import trie.smt as m_smt
    import trie.utils.binaries as m_bin
    import trie.utils.nibbles as m_nib
    import trie.utils.nodes as m_nodes
    from trie.exceptions import MissingTrieNode

    from vt.ref import mpt as refmpt

    raw = {
        "encode_nibbles": m_nib.encode_nibbles,
        "decode_nibbles": m_nib.decode_nibbles,
        "bytes_to_nibbles": m_nib.bytes_to_nibbles,
        "nibbles_to_bytes": m_nib.nibbles_to_bytes,
        "encode_to_bin": m_bin.encode_to_bin,
        "decode_from_bin": m_bin.decode_from_bin,
        "encode_from_bin_keypath": m_bin.encode_from_bin_keypath,
        "decode_to_bin_keypath": m_bin.decode_to_bin_keypath,
        "parse_node": m_nodes.parse_node,
    }

    # ------------------------------------------------------------------ C16: codecs
    def hp_roundtrip(nibbles, result):
        nib = tuple(nibbles)
        term = bool(nib) and nib[-1] == 16
        body = nib[:-1] if term else nib
        if any((not isinstance(n, int)) or n < 0 or n > 15 for n in body):
            return _skip("encode_nibbles")
        want = refmpt.hp(body, term)
        back = raw["decode_nibbles"](result)
        return _verdict(
            "encode_nibbles", result == want and tuple(back) == nib,
            lambda: "encode_nibbles(%r)=%s, HP says %s, decodes back to %r" % (nib, _h(result), _h(want), back))

    def hp_decode_roundtrip(value, result):
        v = bytes(value)
        if not v or (v[0] >> 4) > 3 or ((v[0] >> 4) in (0, 2) and (v[0] & 15)):
            return _skip("decode_nibbles")  # not a canonical HP string: nothing is promised
        again = raw["encode_nibbles"](result)
        return _verdict("decode_nibbles", again == v,
                        lambda: "decode_nibbles(%s)=%r re-encodes to %s" % (_h(v), result, _h(again)))

    def nibbling_roundtrip(value, result):
        if not isinstance(value, (bytes, bytearray)):
            return _skip("bytes_to_nibbles")
        ok = len(result) == 2 * len(value) and all(
            result[2 * i] == b >> 4 and result[2 * i + 1] == b & 15 for i, b in enumerate(value))
        return _verdict("bytes_to_nibbles", ok,
                        lambda: "bytes_to_nibbles(%s)=%r" % (_h(value), result))

    def unnibbling_roundtrip(nibbles, result):
        back = raw["bytes_to_nibbles"](result)
        return _verdict("nibbles_to_bytes", tuple(back) == tuple(nibbles),
                        lambda: "nibbles_to_bytes(%r)=%s which reads back as %r" % (tuple(nibbles), _h(result), back))

    def bin_roundtrip(value, result):
        if not isinstance(value, (bytes, bytearray)):
            return _skip("encode_to_bin")
        ok = len(result) == 8 * len(value) and set(result) <= {0, 1} and raw["decode_from_bin"](result) == bytes(value)
        return _verdict("encode_to_bin", ok, lambda: "encode_to_bin(%s)=%s" % (_h(value), _h(result)))

    def unbin_roundtrip(input_bin, result):
        try:
            bits = bytes(input_bin)
        except Exception:
            return _skip("decode_from_bin")
        if len(bits) % 8 or not set(bits) <= {0, 1}:
            return _skip("decode_from_bin")
        return _verdict("decode_from_bin", raw["encode_to_bin"](result) == bits,
                        lambda: "decode_from_bin(%s)=%s" % (_h(bits), _h(result)))

    def keypath_roundtrip(input_bin, result):
        if not isinstance(input_bin, (bytes, bytearray)) or not set(input_bin) <= {0, 1}:
            return _skip("encode_from_bin_keypath")
        back = raw["decode_to_bin_keypath"](result)
        return _verdict("encode_from_bin_keypath", back == bytes(input_bin),
                        lambda: "encode_from_bin_keypath(%s)=%s decodes to %s" % (_h(input_bin), _h(result), _h(back)))

    def kv_node_parses(keypath, child_node_hash, result):
        got = raw["parse_node"](result)
        return _verdict("encode_kv_node", tuple(got) == (0, keypath, child_node_hash),
                        lambda: "parse_node(encode_kv_node(%s, %s)) = %r" % (_h(keypath), _h(child_node_hash), got))

    def branch_node_parses(left_child_node_hash, right_child_node_hash, result):
        got = raw["parse_node"](result)
        return _verdict("encode_branch_node", tuple(got) == (1, left_child_node_hash, right_child_node_hash),
                        lambda: "parse_node(encode_branch_node(..)) = %r" % (got,))

    def leaf_node_parses(value, result):
        got = raw["parse_node"](result)
        return _verdict("encode_leaf_node", tuple(got) == (2, None, value),
                        lambda: "parse_node(encode_leaf_node(%s)) = %r" % (_h(value), got))

    E = icontract.ensure
    bind = [
        (m_nib, "encode_nibbles", hp_roundtrip),
        (m_nib, "decode_nibbles", hp_decode_roundtrip),
        (m_nib, "bytes_to_nibbles", nibbling_roundtrip),
        (m_nib, "nibbles_to_bytes", unnibbling_roundtrip),
        (m_bin, "encode_to_bin", bin_roundtrip),
        (m_bin, "decode_from_bin", unbin_roundtrip),
        (m_bin, "encode_from_bin_keypath", keypath_roundtrip),
        (m_nodes, "encode_kv_node", kv_node_parses),
        (m_nodes, "encode_branch_node", branch_node_parses),
        (m_nodes, "encode_leaf_node", leaf_node_parses),
    ]
    replaced = {}
    for mod, name, cond in bind:
        old = getattr(mod, name)
        try:
            new = E(cond, error=ContractBroken)(old)
        except Exception as e:  # signature changed: the contract cannot be bound -> zero evaluations
            SKIPPED["bind-failed:" + name] += 1
            continue
        setattr(mod, name, new)
        replaced[id(old)] = (old, new)

    # re-bind names imported with `from m import f`
    for mname, m in list(sys.modules.items()):
        if m is None or not (mname == "trie" or mname.startswith("trie.")):
            continue
        for attr, val in list(vars(m).items()):
            hit = replaced.get(id(val))
            if hit is not None and val is hit[0]:
                setattr(m, attr, hit[1])

    # ---------------------------------------------------------------------- C11: fog
    Fog = m_fog.HexaryTrieFog

    def _members(fog):
        s = getattr(fog, "_unexplored_prefixes", None)
        if s is None:
            return None
        return tuple(tuple(int(x) for x in p) for p in s)

    def fog_is_antichain(self):
        mem = _members(self)
        if mem is None:
            return _skip("fog_antichain")
        srt = sorted(mem)
        ok = len(set(mem)) == len(mem) and not any(
            srt[i + 1][: len(srt[i])] == srt[i] for i in range(len(srt) - 1))
        return _verdict("fog_antichain", ok, lambda: "unexplored prefixes are not an antichain: %r" % (srt,))

    def fog_snapshot(self):
        return _members(self)

    def explore_exact(self, old_prefix_input, foggy_sub_segments, result, OLD):
        before = OLD.members
        if before is None:
            return _skip("fog_explore")
        now = _members(self)
        old = tuple(int(x) for x in old_prefix_input)
        want = (set(before) - {old}) | {old + tuple(int(x) for x in s) for s in foggy_sub_segments}
        got = _members(result)
        ok = now == before and got is not None and set(got) == want and result is not self
        return _verdict("fog_explore", ok, lambda: "explore(%r, %r): receiver %r -> %r, result %r, expected %r" % (
            old, list(foggy_sub_segments), before, now, got, sorted(want)))

    def mark_exact(self, prefix_inputs, result, OLD):
        before = OLD.members
        if before is None:
            return _skip("fog_mark_all_complete")
        now = _members(self)
        want = set(before) - {tuple(int(x) for x in p) for p in prefix_inputs}
        got = _members(result)
        ok = now == before and got is not None and set(got) == want
        return _verdict("fog_mark_all_complete", ok, lambda: "mark_all_complete: receiver %r -> %r, result %r, expected %r" % (
            before, now, got, sorted(want)))

    try:
        Fog.explore = icontract.snapshot(fog_snapshot, name="members")(
            E(explore_exact, error=ContractBroken)(E(_result_antichain(fog_is_antichain), error=ContractBroken)(Fog.explore)))
        Fog.mark_all_complete = icontract.snapshot(fog_snapshot, name="members")(
            E(mark_exact, error=ContractBroken)(Fog.mark_all_complete))
    except Exception:
        SKIPPED["bind-failed:fog"] += 1

    # -------------------------------------------------- C01 / C12 / C14: write then read
    Hex = m_hexary.HexaryTrie

    def hexary_set_then_get(self, key, value):
        if not isinstance(key, bytes) or not isinstance(value, bytes):
            return _skip("hexary_set_get")
        try:
            got = self.get(key)
            present = self.exists(key)
        except (MissingTrieNode, KeyError):
            return _skip("hexary_set_get")
        return _verdict("hexary_set_get", got == value and present is (value != b""),
                        lambda: "after set(%s, %s): get=%s exists=%r" % (_h(key), _h(value), _h(got), present))

    def hexary_delete_then_get(self, key):
        if not isinstance(key, bytes):
            return _skip("hexary_delete_get")
        try:
            got = self.get(key)
        except (MissingTrieNode, KeyError):
            return _skip("hexary_delete_get")
        return _verdict("hexary_delete_get", got == b"",
                        lambda: "after delete(%s): get=%s" % (_h(key), _h(got)))

    def hexary_root_is_hash_of_stored_root(self):
        from eth_hash.auto import keccak

        rh = self.root_hash
        if rh == m_hexary.BLANK_NODE_HASH:
            return _verdict("hexary_root_stored", True, lambda: "")
        try:
            body = self.db[rh]
        except Exception:
            return _skip("hexary_root_stored")
        return _verdict("hexary_root_stored", keccak(body) == rh,
                        lambda: "db[root_hash] does not hash to root_hash %s" % _h(rh))

    def hexary_root_after_set(self, key, value):
        return hexary_root_is_hash_of_stored_root(self)

    def hexary_root_after_delete(self, key):
        return hexary_root_is_hash_of_stored_root(self)

    try:
        Hex.set = E(hexary_root_after_set, error=ContractBroken)(E(hexary_set_then_get, error=ContractBroken)(Hex.set))
        Hex.delete = E(hexary_root_after_delete, error=ContractBroken)(E(hexary_delete_then_get, error=ContractBroken)(Hex.delete))
    except Exception:
        SKIPPED["bind-failed:hexary"] += 1

    Bin = m_binary.BinaryTrie

    def binary_set_then_get(self, key, value):
        if not isinstance(key, bytes) or not isinstance(value, bytes):
            return _skip("binary_set_get")
        try:
            got = self.get(key)
        except Exception:
            return _skip("binary_set_get")
        want = value if value else None
        return _verdict("binary_set_get", got == want,
                        lambda: "after BinaryTrie.set(%s, %s): get=%r" % (_h(key), _h(value), got))

    try:
        Bin.set = E(binary_set_then_get, error=ContractBroken)(Bin.set)
    except Exception:
        SKIPPED["bind-failed:binary"] += 1

    Smt = m_smt.SparseMerkleTree

    def smt_set_then_get_and_branch(self, key, value, result):
        if not isinstance(key, bytes) or not isinstance(value, bytes):
            return _skip("smt_set_get")
        try:
            got = self.get(key)
            br = self.branch(key)
            root = m_smt.calc_root(key, value, br)
        except Exception:
            return _skip("smt_set_get")
        ok = got == value and root == self.root_hash and len(result) == 8 * len(key) and len(br) == 8 * len(key)
        return _verdict("smt_set_get", ok, lambda: "after SMT.set(%s, %s): get=%s, calc_root(branch)=%s root=%s, %d hashes returned" % (
            _h(key), _h(value), _h(got), _h(root), _h(self.root_hash), len(result)))

    try:
        Smt.set = E(smt_set_then_get_and_branch, error=ContractBroken)(Smt.set)
    except Exception:
        SKIPPED["bind-failed:smt"] += 1
    return True


def _result_antichain(cond):
    """explore() returns a NEW fog: the antichain invariant is asserted on the result."""

    def result_is_antichain(result):
        return cond(result)

    return result_is_antichain


def report():
    return {"evaluations": dict(EVALS), "skipped": dict(SKIPPED), "broken": list(BROKEN)}
