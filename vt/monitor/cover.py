"""Line coverage of the functions a property is anchored in, via sys.monitoring LINE events
(each location disabled after its first hit, so the cost is negligible).  Reported in the
evidence; never decides a verdict."""
import json
import os
import re
import sys

from vt import core

_TOOL = 4
_hit = set()
_state = {"installed": False, "prefix": None, "codes": []}


def _on_line(code, line):
    _hit.add((code.co_filename, line))
    return sys.monitoring.DISABLE


def install(prefix):
    if _state["installed"]:
        return True
    mon = getattr(sys, "monitoring", None)
    if mon is None:
        return False
    try:
        mon.use_tool_id(_TOOL, "vt-cover")
    except ValueError:
        return False
    mon.register_callback(_TOOL, mon.events.LINE, _on_line)
    codes = core.repo_code_objects(prefix)
    for co in codes:
        mon.set_local_events(_TOOL, co, mon.events.LINE)
    _state.update(installed=True, prefix=prefix, codes=codes)
    return True


def _ranges(prop_id, verif_dir):
    """Anchored line ranges of a property: {relative file: [(lo, hi), ...]}"""
    out = {}
    with open(os.path.join(verif_dir, "properties.jsonl")) as f:
        for line in f:
            p = json.loads(line)
            if p["id"] != prop_id:
                continue
            for mech in p["anchors"].get("mechanism", []):
                for part in mech.get("where", "").split(";"):
                    part = part.strip()
                    m = re.match(r"([\w/\.]+):(.*)$", part)
                    if not m:
                        continue
                    rel = m.group(1)
                    for r in m.group(2).split(","):
                        r = r.strip()
                        mm = re.match(r"(\d+)(?:-(\d+))?$", r)
                        if mm:
                            lo = int(mm.group(1))
                            hi = int(mm.group(2) or lo)
                            out.setdefault(rel, []).append((lo, hi))
    return out


def report(prop_id, verif_dir):
    """{'hit': [...'file:line'], 'all': [...]} restricted to the anchored ranges."""
    if not _state["installed"]:
        return {"hit": [], "all": []}
    prefix = _state["prefix"].rstrip("/") + "/"
    ranges = _ranges(prop_id, verif_dir)
    executable = set()
    for co in _state["codes"]:
        rel = co.co_filename[len(prefix):]
        if rel not in ranges:
            continue
        first = co.co_firstlineno
        for _, _, ln in co.co_lines():
            if ln is None or ln == first:
                continue
            if any(lo <= ln <= hi for lo, hi in ranges[rel]):
                executable.add("%s:%d" % (rel, ln))
    hit = set()
    for fn, ln in _hit:
        if fn.startswith(prefix):
            key = "%s:%d" % (fn[len(prefix):], ln)
            if key in executable:
                hit.add(key)
    return {"hit": sorted(hit), "all": sorted(executable)}
