"""Driver: shards a property's workload over subprocesses, merges what the monitors
observed, classifies violations against known_findings.json, writes the evidence file and
replays, and maps the three-valued verdict to the exit code.

exit 0  held on everything observed (possibly with KNOWN-FINDING lines)
exit 1  VIOLATION property=<id> replay=<path>
exit 2  INCONCLUSIVE (a deciding counter below its floor, or the watchdog fired)
exit 3  MONITOR-ERROR (the check itself is broken; never a finding)
"""
import argparse
import importlib
import json
import os
import re
import shutil
import subprocess
import sys
import tempfile
import time

from vt import env

def say(*a):
    """print that survives a reader who went away: the verdict is the exit code"""
    try:
        print(*a)
        sys.stdout.flush()
    except BrokenPipeError:
        try:
            sys.stdout = open(os.devnull, "w")
        except OSError:
            pass


VERIF = env.VERIF
NSHARDS = int(os.environ.get("VERIF_SHARDS", "16"))
WATCHDOG = {"quick": 900, "thorough": 4 * 3600}


def load_known(prop):
    path = os.path.join(VERIF, "known_findings.json")
    if not os.path.exists(path):
        return []
    with open(path) as f:
        data = json.load(f)
    return [e for e in data.get("findings", []) if e.get("property") == prop]


def load_floors(mod, prop, tier):
    """Inconclusive floors. The module names the deciding counters (keys of FLOORS[tier]); the
    values come from floors.json, calibrated by tools/floors.py at <= 1/10 of the minimum observed
    over several seeds on the unchanged tree.  A counter without a calibrated value only has to
    be reached once."""
    keys = list(getattr(mod, "FLOORS", {}).get(tier, {}))
    path = os.path.join(VERIF, "floors.json")
    cal = {}
    if os.path.exists(path):
        with open(path) as f:
            cal = json.load(f).get(prop, {}).get(tier, {})
    return {k: int(cal.get(k, 1)) for k in keys}


def classify(violation, known):
    """Return the open known finding whose classifier matches this violation, if any."""
    for e in known:
        if e.get("status") != "open":
            continue
        c = e.get("classifier", {})
        if c.get("monitor") and c["monitor"] != violation["monitor"]:
            continue
        if c.get("detail_regex") and not re.search(c["detail_regex"], violation["detail"]):
            continue
        return e
    return None


def write_replay(prop, seed, n, violation, tier):
    d = os.path.join(VERIF, "replays")
    os.makedirs(d, exist_ok=True)
    path = os.path.join(d, "%s-%s-%d.json" % (prop, seed, n))
    with open(path, "w") as f:
        json.dump(
            {"property": prop, "seed": seed, "tier": tier, "monitor": violation["monitor"],
             "detail": violation["detail"], "case": violation["case"]},
            f, indent=1, sort_keys=True,
        )
    return path


def merge(results):
    out = {"counters": {}, "shapes": set(), "samples": [], "violations": [],
           "evaluations": 0, "notes": [], "cover_hit": set(), "cover_all": set(),
           "steps_max": 0, "steps_total": 0, "steps_installed": True, "exhaustive": None}
    for r in results:
        for k, v in r["counters"].items():
            out["counters"][k] = out["counters"].get(k, 0) + v
        out["shapes"].update(r["shapes"])
        out["violations"].extend(r["violations"])
        out["evaluations"] += r["evaluations"]
        out["notes"].extend(r.get("notes", []))
        cov = r.get("cover", {})
        out["cover_hit"].update(cov.get("hit", []))
        out["cover_all"].update(cov.get("all", []))
        st = r.get("steps", {})
        out["steps_max"] = max(out["steps_max"], st.get("max_per_call", 0))
        out["steps_total"] += st.get("total", 0)
        out["steps_installed"] = out["steps_installed"] and st.get("installed", False)
    # samples: round-robin over shards so they are not all from shard 0
    i = 0
    while len(out["samples"]) < 5:
        took = False
        for r in results:
            if i < len(r["samples"]) and len(out["samples"]) < 5:
                out["samples"].append(r["samples"][i])
                took = True
        if not took:
            break
        i += 1
    return out


def run_replay(mod, path):
    from vt import core

    with open(path) as f:
        data = json.load(f)
    case = data["case"] if "case" in data else data
    if case.get("engine") == "repo-tests":
        from vt.monitor import repo_tests

        rep = repo_tests.run(case["files"], hypothesis_seed=case.get("hypothesis_seed", 0), extra_args=case.get("args", ()))
        hits = [b for b in rep.get("broken", []) if b["contract"] == case.get("contract")]
        if hits:
            say("replay: contract %s broken: %s" % (hits[0]["contract"], hits[0]["detail"][:400]))
            say("VIOLATION property=%s replay=%s" % (mod.ID, path))
            return 1
        say("replay: no violation (property=%s, %s) %s" % (mod.ID, path, rep.get("error", "")))
        return 0
    ctx = core.Ctx(mod.ID, "quick", 0)
    core.install_step_monitor(env.REPO + os.sep)
    shrink = getattr(mod, "shrink", None)
    if shrink is not None:
        mod.shrink = lambda c, m: c      # a replay is run as it is
    core.run_case_guarded(mod, case, ctx)
    if ctx.violations:
        v = ctx.violations[0]
        say("replay: monitor %s fired: %s" % (v["monitor"], v["detail"]))
        say("VIOLATION property=%s replay=%s" % (mod.ID, path))
        return 1
    say("replay: no violation (property=%s, %s)" % (mod.ID, path))
    return 0


def main(argv=None):
    ap = argparse.ArgumentParser()
    ap.add_argument("prop")
    ap.add_argument("--tier", default=os.environ.get("VERIF_TIER", "quick"),
                    choices=["quick", "thorough"])
    ap.add_argument("--replay")
    ap.add_argument("--shards", type=int, default=NSHARDS)
    ap.add_argument("--no-evidence", action="store_true")
    args = ap.parse_args(argv)
    prop = args.prop.upper()
    seed = int(os.environ.get("VERIF_SEED", "0"))
    sys.path.insert(0, VERIF)
    env.load_repo()
    mod = importlib.import_module("vt.props.%s" % prop.lower())

    if args.replay:
        return run_replay(mod, args.replay)

    t0 = time.time()
    env.ensure_deps()
    wd = os.path.join(VERIF, ".work")
    os.makedirs(wd, exist_ok=True)
    work = tempfile.mkdtemp(prefix="vt-%s-" % prop, dir=wd)
    procs = []
    cenv = env.child_env()
    for s in range(args.shards):
        out = os.path.join(work, "shard%d.json" % s)
        cmd = [env.PYTHON, "-m", "vt.shard", prop, args.tier, str(seed), str(s),
               str(args.shards), out]
        log = open(os.path.join(work, "shard%d.log" % s), "w")
        procs.append((s, out, log, subprocess.Popen(cmd, cwd=VERIF, env=cenv, stdout=log,
                                                    stderr=subprocess.STDOUT)))
    deadline = t0 + WATCHDOG[args.tier]
    results, errors, timeouts = [], [], []
    for s, out, log, p in procs:
        try:
            rc = p.wait(timeout=max(1, deadline - time.time()))
        except subprocess.TimeoutExpired:
            p.kill()
            p.wait()
            timeouts.append(s)
            continue
        finally:
            log.close()
        if rc != 0 or not os.path.exists(out):
            with open(os.path.join(work, "shard%d.log" % s)) as f:
                errors.append((s, rc, f.read()[-3000:]))
            continue
        with open(out) as f:
            results.append(json.load(f))
    wall = time.time() - t0
    shutil.rmtree(work, ignore_errors=True)

    if errors:
        for s, rc, tail in errors[:3]:
            say("---- shard %d exited %s ----\n%s" % (s, rc, tail))
        say("MONITOR-ERROR property=%s %d shard(s) crashed" % (prop, len(errors)))
        return 3

    m = merge(results)
    # ---- thorough tier: the repository's own test-suite replayed as an extra workload under
    # the run-time contracts that are consequences of this property (vt/monitor/contracts.py)
    rt = getattr(mod, "REPO_TESTS", None)
    repo_tests_report = None
    if rt and args.tier == "thorough" and os.environ.get("VT_NO_REPO_TESTS") != "1":
        from vt.monitor import repo_tests

        rep = repo_tests.run(rt["files"], hypothesis_seed=seed, extra_args=rt.get("args", ()))
        repo_tests_report = {k: rep.get(k) for k in ("error", "installed", "tests_collected", "files",
                                                     "hypothesis_seed", "skipped")}
        if rep.get("error"):
            timeouts.append("repo-tests: " + rep["error"][:200])
        else:
            for name in rt["contracts"]:
                m["counters"]["repo_tests_contract_" + name] = rep["evaluations"].get(name, 0)
            for b in rep.get("broken", []):
                if b["contract"] in rt["contracts"]:
                    m["violations"].append({
                        "monitor": "contract-" + b["contract"], "detail": "under the repository's own tests: " + b["detail"],
                        "case": {"engine": "repo-tests", "files": rt["files"], "args": list(rt.get("args", ())),
                                 "hypothesis_seed": seed, "contract": b["contract"]}})
    wall = time.time() - t0
    known = load_known(prop)
    unknown, matched = [], {}
    for v in m["violations"]:
        e = classify(v, known)
        if e is None:
            unknown.append(v)
        else:
            matched.setdefault(e["id"], (e, 0))
            matched[e["id"]] = (e, matched[e["id"]][1] + 1)

    floors = load_floors(mod, prop, args.tier)
    if repo_tests_report is not None and not repo_tests_report.get("error"):
        for name in rt["contracts"]:
            floors.setdefault("repo_tests_contract_" + name, 1)
    below = {k: (m["counters"].get(k, 0), f) for k, f in floors.items()
             if m["counters"].get(k, 0) < f}
    if m["evaluations"] == 0:
        below["evaluations"] = (0, 1)

    missed = sorted(m["cover_all"] - m["cover_hit"])
    coverage = {
        "evaluations": m["evaluations"],
        "distinct_nontrivial": len(m["shapes"]),
        "rule": mod.RULE,
        "samples": m["samples"],
        "observed": dict(sorted(m["counters"].items())),
        "floors": floors,
        "anchored_lines": {"hit": len(m["cover_hit"]), "total": len(m["cover_all"]),
                           "missed": missed[:60]},
        "steps": {"max_python_calls_in_one_api_call": m["steps_max"],
                  "total_python_calls_monitored": m["steps_total"],
                  "limit": __import__("vt.core", fromlist=["x"]).STEP_LIMIT,
                  "monitor_installed": m["steps_installed"]},
        "shards": args.shards,
        "notes": m["notes"][:10],
    }
    if repo_tests_report is not None:
        coverage["repo_tests_under_contracts"] = repo_tests_report
    exhaustive = getattr(mod, "EXHAUSTIVE", {}).get(args.tier)
    if exhaustive:
        coverage["exhaustive"] = True
        coverage["exhaustive_scope"] = exhaustive
    evidence = {
        "property_id": prop, "tier": args.tier, "seed": seed, "level": mod.LEVEL,
        "coverage": coverage, "assumptions": getattr(mod, "ASSUMPTIONS", []),
        "wall_s": round(wall, 2), "violations": len(m["violations"]),
    }
    if not args.no_evidence:
        os.makedirs(os.path.join(VERIF, "evidence"), exist_ok=True)
        with open(os.path.join(VERIF, "evidence", "%s.json" % prop), "w") as f:
            json.dump(evidence, f, indent=1, sort_keys=True, default=repr)

    say("%s tier=%s seed=%d: %d evaluations, %d distinct non-trivial, %d violations, "
          "anchored lines %d/%d, %.1fs" % (prop, args.tier, seed, m["evaluations"],
                                          len(m["shapes"]), len(m["violations"]),
                                          len(m["cover_hit"]), len(m["cover_all"]), wall))
    keys = sorted(m["counters"])
    say("observed: " + ", ".join("%s=%d" % (k, m["counters"][k]) for k in keys))

    for eid, (e, n) in matched.items():
        say("KNOWN-FINDING: property=%s %s (%d occurrence(s) this run)" % (prop, e["what"], n))
    if unknown:
        seen = set()
        n = 0
        for v in unknown:
            key = (v["monitor"], v["detail"][:80])
            if key in seen:
                continue
            seen.add(key)
            path = write_replay(prop, seed, n, v, args.tier)
            say("  monitor=%s detail=%s" % (v["monitor"], v["detail"][:400]))
            say("VIOLATION property=%s replay=%s" % (prop, path))
            n += 1
            if n >= 5:
                break
        return 1
    if timeouts:
        say("INCONCLUSIVE property=%s watchdog fired for shard(s) %s" % (prop, timeouts))
        return 2
    if below:
        say("INCONCLUSIVE property=%s deciding counters below floor: %s" % (
            prop, ", ".join("%s=%d<%d" % (k, a, b) for k, (a, b) in below.items())))
        return 2
    return 0


if __name__ == "__main__":
    sys.exit(main())
