"""Core vocabulary of the monitors: violations, guarded calls into the code under test,
the per-shard context that accumulates what the monitors observed."""
import hashlib
import json
import random
import sys
from collections import Counter


class Violation(Exception):
    """A monitor observed an execution that refutes the property."""

    def __init__(self, monitor, detail):
        super().__init__("%s: %s" % (monitor, detail))
        self.monitor = monitor
        self.detail = detail


class StepBudgetExceeded(BaseException):
    """Raised from the sys.monitoring callback when one API call of the code under test
    executes more Python function calls than the logical bound allows."""


class Raised:
    """Result wrapper: the call raised an exception the caller declared as expected."""

    def __init__(self, exc):
        self.exc = exc
        self.type = type(exc)

    def __repr__(self):
        return "Raised(%s: %s)" % (type(self.exc).__name__, str(self.exc)[:120])


# --------------------------------------------------------------------------- step budget
STEP_LIMIT = 200_000
_steps = {"n": 0, "active": False, "max": 0, "installed": False, "total": 0}
_TOOL = 3


def _on_py_start(code, offset):
    if _steps["active"]:
        _steps["n"] += 1
        if _steps["n"] > STEP_LIMIT:
            _steps["n"] = 0
            raise StepBudgetExceeded()


def repo_code_objects(prefix):
    """All code objects (functions, methods, nested functions, generators) defined in
    files under `prefix` that are reachable from loaded `trie*` modules."""
    import types

    seen = {}

    def add_code(co):
        if not isinstance(co, types.CodeType) or id(co) in seen:
            return
        if not co.co_filename.startswith(prefix):
            return
        seen[id(co)] = co
        for c in co.co_consts:
            add_code(c)

    def add_obj(obj, depth=0):
        for attr in ("__wrapped__", "__func__", "fget", "fset"):
            inner = getattr(obj, attr, None)
            if inner is not None and inner is not obj and depth < 4:
                add_obj(inner, depth + 1)
        co = getattr(obj, "__code__", None)
        if co is not None:
            add_code(co)
        clo = getattr(obj, "__closure__", None)
        if clo and depth < 4:
            for cell in clo:
                try:
                    add_obj(cell.cell_contents, depth + 1)
                except ValueError:
                    pass

    for name, m in list(sys.modules.items()):
        if m is None or not (name == "trie" or name.startswith("trie.")):
            continue
        for v in list(vars(m).values()):
            if isinstance(v, type):
                if getattr(v, "__module__", "").startswith("trie"):
                    for w in list(vars(v).values()):
                        add_obj(w)
            else:
                add_obj(v)
    return list(seen.values())


def install_step_monitor(prefix=None):
    """Count PY_START events of the repository's code objects while a guarded call is
    active.  Decides non-termination on logical steps, not on wall-clock."""
    if _steps["installed"]:
        return True
    mon = getattr(sys, "monitoring", None)
    if mon is None:
        return False
    try:
        mon.use_tool_id(_TOOL, "vt-steps")
    except ValueError:
        return False
    mon.register_callback(_TOOL, mon.events.PY_START, _on_py_start)
    if prefix is None:
        mon.set_events(_TOOL, mon.events.PY_START)
    else:
        for co in repo_code_objects(prefix):
            mon.set_local_events(_TOOL, co, mon.events.PY_START)
    _steps["installed"] = True
    return True


def cut(fn, *args, expect=(), **kwargs):
    """Call into the code under test (re-entrant).

    Returns the result; an exception of a type listed in `expect` comes back as
    Raised(exc); a trace-specification violation raised from the database boundary, the
    step budget being exceeded or any other exception is a violation."""
    from vt.monitor.db import InjectedWriteFailure, TraceViolation

    saved = _steps["n"]
    _steps["n"] = 0
    _steps["depth"] = _steps.get("depth", 0) + 1
    _steps["active"] = True
    try:
        return fn(*args, **kwargs)
    except StepBudgetExceeded:
        raise Violation(
            "step-budget",
            "call %s did not return within %d Python calls" % (_name(fn), STEP_LIMIT),
        )
    except Violation:
        raise
    except TraceViolation as tv:
        raise Violation(tv.monitor, tv.detail)
    except _contract_broken() as cb:
        # a run-time contract bound on a real function (vt.monitor.contracts, thorough tier)
        msg = str(cb)
        name = msg.split(":\n", 1)[0].rsplit("\n", 1)[-1].strip() if ":\n" in msg else "contract"
        raise Violation("contract-" + name.split(":")[0][:40], msg[:600]) from cb
    except expect as e:  # noqa
        return Raised(e)
    except InjectedWriteFailure:
        # the harness' own injected fault travels up to whoever injected it
        raise
    except Exception as e:
        raise Violation(
            "unexpected-exception",
            "%s raised %s: %s" % (_name(fn), type(e).__name__, str(e)[:300]),
        ) from e
    finally:
        _steps["depth"] -= 1
        _steps["active"] = _steps["depth"] > 0
        if _steps["depth"] == 0:
            _steps["total"] += _steps["n"]
        _steps["total"] += 0 if _steps["depth"] == 0 else _steps["n"]
        if _steps["n"] > _steps["max"]:
            _steps["max"] = _steps["n"]
        # the enclosing guarded call keeps its own count (the budget is per API call,
        # harness code between nested calls is not instrumented anyway)
        _steps["n"] = saved


def _contract_broken():
    mod = sys.modules.get("vt.monitor.contracts")
    return mod.ContractBroken if mod is not None else ()


def _name(fn):
    return getattr(fn, "__qualname__", None) or getattr(fn, "__name__", None) or repr(fn)


# ------------------------------------------------------------------------------- context
def hx(b):
    return b.hex() if isinstance(b, (bytes, bytearray)) else b


def unhx(s):
    return bytes.fromhex(s)


def digest(obj):
    if not isinstance(obj, (bytes, str)):
        obj = json.dumps(obj, sort_keys=True, default=repr)
    if isinstance(obj, str):
        obj = obj.encode()
    return hashlib.blake2b(obj, digest_size=8).hexdigest()


class Ctx:
    """What one shard (or one replay) observed."""

    MAX_VIOLATIONS = 5
    MAX_SAMPLES = 3

    def __init__(self, prop, tier, seed, shard=0, nshards=1):
        self.prop = prop
        self.tier = tier
        self.seed = seed
        self.shard = shard
        self.nshards = nshards
        self.rnd = random.Random("%s:%s:%s" % (prop, seed, shard))
        self.counters = Counter()
        self.shapes = set()
        self.samples = []
        self.violations = []
        self.evaluations = 0
        self.notes = []

    # observation
    def count(self, name, n=1):
        self.counters[name] += n

    def shape(self, key, nontrivial=True):
        """Register a distinct case signature seen by the deciding monitor."""
        if nontrivial:
            self.shapes.add(digest(key))

    def sample(self, obj):
        if len(self.samples) < self.MAX_SAMPLES:
            self.samples.append(obj)

    def evaluated(self, n=1):
        self.evaluations += n

    # verdicts
    def violation(self, monitor, detail, case):
        self.violations.append({"monitor": monitor, "detail": detail, "case": case})

    @property
    def full(self):
        return len(self.violations) >= self.MAX_VIOLATIONS

    def result(self):
        return {
            "counters": dict(self.counters),
            "shapes": sorted(self.shapes),
            "samples": self.samples,
            "violations": self.violations,
            "evaluations": self.evaluations,
            "notes": self.notes,
            "steps": {"max_per_call": _steps["max"], "total": _steps["total"],
                      "installed": _steps["installed"]},
        }


def run_case_guarded(mod, case, ctx):
    """Run one case under the property's monitors.  A Violation is shrunk (when the
    module knows how) and recorded; anything else that escapes is a monitor error."""
    try:
        try:
            mod.run_case(case, ctx)
            return True
        except (Violation, KeyboardInterrupt, SystemExit, GeneratorExit, StepBudgetExceeded):
            raise
        except Exception as e:
            # The monitor itself tripped while interpreting what the code under test handed
            # back (an ill-typed value, a missing attribute, ...).  On the unchanged tree this
            # never happens (all tiers, many seeds); when it happens, the likeliest cause is a
            # result of the wrong form, so it is reported as a violation - with the traceback,
            # so that a mistake of the monitor is recognisable as such.
            import traceback

            tb = traceback.format_exc().strip().splitlines()
            raise Violation("uninterpretable-result",
                            "the monitor could not interpret a result of the code under test: %s: %s | %s" % (
                                type(e).__name__, str(e)[:200], " / ".join(x.strip() for x in tb[-6:])[:600])) from e
    except Violation as v:
        small = case
        shrink = getattr(mod, "shrink", None)
        if shrink is not None:
            try:
                small = shrink(case, v.monitor)
            except Exception:
                small = case
        ctx.violation(v.monitor, v.detail, small)
        return False


class NullCtx(Ctx):
    """Context used while shrinking / replaying: observes, records nothing lasting."""

    def __init__(self, prop="replay", tier="quick", seed=0):
        super().__init__(prop, tier, seed)


def still_violates(mod, case, monitor):
    try:
        mod.run_case(case, NullCtx(getattr(mod, "ID", "x")))
    except Violation as v:
        return v.monitor == monitor
    except Exception:
        return False
    return False


def shrink_list(mod, case, monitor, field="ops", budget=400, seconds=20.0):
    """Delta-debugging over case[field] (a list): drop chunks while the same monitor
    still fires.  Bounded by a number of re-executions AND by wall-clock (shrinking only makes
    the replay smaller; it never decides anything)."""
    import time as _time

    items = list(case.get(field, []))
    n = 2
    tries = 0
    t_end = _time.time() + seconds
    while len(items) >= 1 and tries < budget and _time.time() < t_end:
        chunk = max(1, len(items) // n)
        reduced = False
        for start in range(0, len(items), chunk):
            cand = items[:start] + items[start + chunk:]
            c2 = dict(case)
            c2[field] = cand
            tries += 1
            if still_violates(mod, c2, monitor):
                items = cand
                n = max(n - 1, 2)
                reduced = True
                break
            if tries >= budget or _time.time() >= t_end:
                break
        if not reduced:
            if chunk == 1:
                break
            n = min(len(items), n * 2)
    out = dict(case)
    out[field] = items
    return out
