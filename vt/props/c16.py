"""C16 - path and node encodings are exact bijections matching their specifications.

Deciding monitor: every encode/decode pair of the repository is called on enumerated and
random inputs and compared with independently written codecs (vt.ref.mpt.hp, own bit
packing, own nibble split) and with its own inverse.  Exhaustive up to a bound, random
beyond it."""
import itertools
import sys

from trie.exceptions import InvalidNode
from trie.typing import Nibbles
from trie.utils import binaries as B
from trie.utils import nibbles as NB
from trie.utils import nodes as ND

from vt.core import Raised, Violation, cut, hx, unhx
from vt.ref import bintrie as refbin
from vt.ref import mpt as refmpt

ID = "C16"
LEVEL = "exploration"
RULE = (
    "cases = inputs to one encode/decode pair (hex-prefix, bytes<->nibbles, bytes<->bits, "
    "kv key-path packing, binary node encode/parse, malformed binary nodes, hexary node "
    "classification); enumerated exhaustively up to the bound in exhaustive_scope, random "
    "beyond; distinct = distinct (kind, input); non-trivial = non-empty input"
)
ASSUMPTIONS = [
    "reference codecs in vt/ref (hex-prefix per Yellow Paper eq. 186-187, bit packing per the "
    "repository's documented kv key-path format) are correct",
    "keccak backend (cross-checked against a pure-Python Keccak-256)",
]
EXHAUSTIVE = {
    "quick": "nibble strings <= 4 x terminator; bit strings <= 12; all 1- and 2-byte strings "
             "(nibbles/bits); type byte 0..255 x lengths {0,1,2,32,33,34,64,65,66}",
    "thorough": "nibble strings <= 5 x terminator; bit strings <= 18; all 1- and 2-byte strings; "
                "type byte 0..255 x lengths {0,1,2,32,33,34,64,65,66,97}",
}
# thorough tier: the repository's own tests replayed under these run-time contracts
REPO_TESTS = {"files": ["tests/core/test_nibbles_utils.py", "tests/core/test_binaries_utils.py",
                        "tests/core/test_nodes_utils.py", "tests/core/test_bin_trie.py",
                        "tests/core/test_hexary_trie.py", "tests/core/test_typing.py"],
              "contracts": ["encode_nibbles", "decode_nibbles", "bytes_to_nibbles", "nibbles_to_bytes",
                            "encode_to_bin", "decode_from_bin", "encode_from_bin_keypath", "encode_kv_node",
                            "encode_branch_node", "encode_leaf_node"]}
FLOORS = {
    "quick": {"hp": 10000, "keypath": 800, "nib": 6000, "bin": 6000, "binnode_bad": 200,
              "binnode_ok": 100, "hexnode_nodes": 200, "encoders_odd_parts": 50},
    "thorough": {"hp": 200000, "keypath": 50000, "nib": 6000, "bin": 6000,
                 "binnode_bad": 250, "binnode_ok": 1000, "hexnode_nodes": 2000},
}

H32 = bytes(range(1, 33))


def _check(cond, monitor, detail):
    if not cond:
        raise Violation(monitor, detail)


def run_case(case, ctx):
    kind = case["kind"]
    ctx.count(kind)
    if kind == "hp":
        n = tuple(case["nibbles"])
        t = case["term"]
        x = n + ((16,) if t else ())
        exp = refmpt.hp(n, t)
        e = cut(NB.encode_nibbles, x)
        _check(e == exp, "hp-encode", "encode_nibbles(%r)=%s, HP=%s" % (x, hx(e), hx(exp)))
        d = cut(NB.decode_nibbles, exp)
        _check(tuple(d) == x, "hp-decode", "decode_nibbles(%s)=%r, expected %r" % (hx(exp), d, x))
        # the same encoded path held in a bytearray / memoryview (what a store may hand out)
        for form in (bytearray(exp), memoryview(exp)):
            d2 = cut(NB.decode_nibbles, form)
            _check(tuple(d2) == x, "hp-decode", "decode_nibbles(%s(%s))=%r, expected %r" % (type(form).__name__, hx(exp), d2, x))
        # "any nibble sequence": the same answers for a list and (unterminated) for a Nibbles
        el = cut(NB.encode_nibbles, list(x))
        _check(el == exp, "hp-encode", "encode_nibbles(%r)=%s (list input), HP=%s" % (list(x), hx(el), hx(exp)))
        if not t:
            en = cut(NB.encode_nibbles, Nibbles(n))
            _check(en == exp, "hp-encode", "encode_nibbles(Nibbles(%r))=%s, HP=%s" % (n, hx(en), hx(exp)))
        for form in (x, list(x)):
            _check(bool(cut(NB.is_nibbles_terminated, form)) == bool(t), "hp-terminator",
                   "is_nibbles_terminated(%r) is %s" % (form, not t))
            a = cut(NB.add_nibbles_terminator, form)
            _check(tuple(a) == n + (16,), "hp-terminator", "add_nibbles_terminator(%r)=%r" % (form, a))
            r = cut(NB.remove_nibbles_terminator, form)
            _check(tuple(r) == n, "hp-terminator", "remove_nibbles_terminator(%r)=%r" % (form, r))
        kl = cut(ND.compute_leaf_key, list(n)) if t else cut(ND.compute_extension_key, list(n))
        _check(kl == exp, "hp-encode", "compute_*_key(%r)=%s (list input), HP=%s" % (list(n), hx(kl), hx(exp)))
        ctx.count("hp_list_inputs")
        # the node-level helpers built on it
        if t:
            k = cut(ND.compute_leaf_key, n)
        else:
            k = cut(ND.compute_extension_key, n)
        _check(k == exp, "hp-encode", "compute_*_key(%r)=%s, HP=%s" % (n, hx(k), hx(exp)))
        node = [exp, b"v" if t else H32]
        ty = cut(ND.get_node_type, node)
        _check(ty == (1 if t else 2), "hexnode-classify", "get_node_type(%r)=%r" % (node, ty))
        ek = cut(ND.extract_key, node)
        _check(tuple(ek) == n, "hexnode-extract-key", "extract_key gave %r for path %r" % (ek, n))
        node_ba = [bytearray(exp), bytearray(b"v") if t else bytearray(H32)]
        _check(cut(ND.get_node_type, node_ba) == (1 if t else 2) and tuple(cut(ND.extract_key, node_ba)) == n,
               "hexnode-classify", "a node whose items are bytearrays is not classified / keyed like its bytes twin: %r" % (node_ba,))
        _check(bool(cut(ND.is_leaf_node, node)) == bool(t) and
               bool(cut(ND.is_extension_node, node)) == (not t),
               "hexnode-classify", "is_leaf/is_extension wrong for %r" % (node,))
    elif kind == "nib":
        b = unhx(case["bytes"])
        n = cut(NB.bytes_to_nibbles, b)
        _check(tuple(n) == refmpt.nibs(b), "bytes-nibbles", "bytes_to_nibbles(%s)=%r" % (hx(b), n))
        _check(tuple(cut(NB.bytes_to_nibbles, bytearray(b))) == refmpt.nibs(b), "bytes-nibbles", "bytes_to_nibbles(bytearray(%s)) differs" % hx(b))
        back = cut(NB.nibbles_to_bytes, n)
        _check(back == b, "bytes-nibbles", "nibbles_to_bytes(bytes_to_nibbles(%s))=%s" % (hx(b), hx(back)))
        # an odd number of nibbles is no byte string: refused, or (if accepted) still invertible
        odd = tuple(n) + (7,)
        r = cut(NB.nibbles_to_bytes, odd, expect=(Exception,))
        if not isinstance(r, Raised):
            _check(tuple(cut(NB.bytes_to_nibbles, r)) == odd, "bytes-nibbles",
                   "nibbles_to_bytes(%r) = %s: an odd-length sequence was accepted and does not convert back" % (odd, hx(r)))
        # the other direction on an even-length nibble string
        back2 = cut(NB.bytes_to_nibbles, cut(NB.nibbles_to_bytes, refmpt.nibs(b)))
        _check(tuple(back2) == refmpt.nibs(b), "bytes-nibbles", "nibbles->bytes->nibbles differs for %s" % hx(b))
    elif kind == "bin":
        b = unhx(case["bytes"])
        bits = cut(B.encode_to_bin, b)
        _check(tuple(bits) == refbin.bits(b), "bytes-bits", "encode_to_bin(%s)=%r" % (hx(b), bits))
        back = cut(B.decode_from_bin, bits)
        _check(back == b, "bytes-bits", "decode_from_bin(encode_to_bin(%s))=%s" % (hx(b), hx(back)))
        back2 = cut(B.encode_to_bin, cut(B.decode_from_bin, bytes(refbin.bits(b))))
        _check(tuple(back2) == refbin.bits(b), "bytes-bits", "bits->bytes->bits differs for %s" % hx(b))
    elif kind == "keypath":
        bits = tuple(case["bits"])
        bb = bytes(bits)
        e = cut(B.encode_from_bin_keypath, bb)
        _check(e == refbin.pack_path(bits), "keypath-pack",
               "encode_from_bin_keypath(%r)=%s, spec=%s" % (bits, hx(e), hx(refbin.pack_path(bits))))
        d = cut(B.decode_to_bin_keypath, refbin.pack_path(bits))
        _check(bytes(d) == bb, "keypath-pack", "decode_to_bin_keypath(pack(%r))=%r" % (bits, d))
        if bits:
            node = cut(ND.encode_kv_node, bb, H32)
            _check(node == b"\x00" + refbin.pack_path(bits) + H32, "binnode-encode", "kv node for %r is %s" % (bits, hx(node)))
            parsed = cut(ND.parse_node, node)
            _check(tuple(parsed) == (0, bb, H32), "binnode-roundtrip", "parse_node(encode_kv_node(%r)) = %r" % (bits, parsed))
    elif kind == "binnode_ok":
        sub = case["sub"]
        if sub == "branch":
            l, r = unhx(case["l"]), unhx(case["r"])
            node = cut(ND.encode_branch_node, l, r)
            _check(node == b"\x01" + l + r, "binnode-encode", "branch node %s" % hx(node))
            parsed = cut(ND.parse_node, node)
            _check(tuple(parsed) == (1, l, r), "binnode-roundtrip", "parse(branch) = %r" % (parsed,))
        else:
            v = unhx(case["v"])
            node = cut(ND.encode_leaf_node, v)
            _check(node == b"\x02" + v, "binnode-encode", "leaf node %s" % hx(node))
            parsed = cut(ND.parse_node, node)
            _check(tuple(parsed) == (2, None, v), "binnode-roundtrip", "parse(leaf) = %r" % (parsed,))
    elif kind == "binnode_bad":
        if case.get("none"):
            node = None
            malformed = True
        else:
            node = unhx(case["node"])
            malformed = _malformed(node)
        res = cut(ND.parse_node, node, expect=(InvalidNode,))
        if malformed:
            _check(isinstance(res, Raised), "binnode-malformed-accepted",
                   "parse_node(%s) returned %r instead of raising InvalidNode" % (hx(node) if node is not None else None, res))
        else:
            _check(not isinstance(res, Raised), "binnode-wellformed-rejected",
                   "parse_node(%s) raised InvalidNode for a well-formed node" % hx(node))
            ctx.count("binnode_wellformed")
    elif kind == "binnode_encode_odd":
        # encoders handed parts of the wrong size: either they refuse, or what they return must
        # still parse back to exactly the parts that went in
        L, R = bytes([0xA1]) * case["l"], bytes([0xB2]) * case["r"]
        res = cut(ND.encode_branch_node, L, R, expect=(Exception,))
        if not isinstance(res, Raised):
            back = cut(ND.parse_node, res, expect=(Exception,))
            _check(not isinstance(back, Raised) and tuple(back) == (1, L, R), "binnode-roundtrip",
                   "encode_branch_node(%d bytes, %d bytes) was accepted and parses back to %r" % (case["l"], case["r"], back))
        res = cut(ND.encode_kv_node, b"\x01\x00\x01", R, expect=(Exception,))
        if not isinstance(res, Raised):
            back = cut(ND.parse_node, res, expect=(Exception,))
            _check(not isinstance(back, Raised) and tuple(back) == (0, b"\x01\x00\x01", R), "binnode-roundtrip",
                   "encode_kv_node(path, %d-byte hash) was accepted and parses back to %r" % (case["r"], back))
        ctx.count("encoders_odd_parts")
    elif kind == "hexnode":
        model = {unhx(k): unhx(v) for k, v in case["model"].items()}
        ref = refmpt.RefTrie(model)
        db = dict(ref.bodies())
        for prefix, node in ref.preorder():
            if node is ref.tree or node.hashed():
                raw = cut(ND.decode_node, db[node.hash()])
            else:
                raw = node.raw()
            raw = _listify(raw)
            ty = cut(ND.get_node_type, raw)
            exp_ty = {"leaf": 1, "ext": 2, "branch": 3}[node.kind]
            _check(ty == exp_ty, "hexnode-classify",
                   "node at %r: get_node_type=%r, canonical node is %s" % (prefix, ty, node.kind))
            _check(bool(cut(ND.is_leaf_node, raw)) == (node.kind == "leaf")
                   and bool(cut(ND.is_extension_node, raw)) == (node.kind == "ext")
                   and bool(cut(ND.is_branch_node, raw)) == (node.kind == "branch")
                   and not cut(ND.is_blank_node, raw),
                   "hexnode-classify", "is_*_node wrong for %s node at %r" % (node.kind, prefix))
            # the same node as a store handing out bytearrays would decode it (empty slots are
            # then empty bytearrays, not the interned b'')
            def _ba(x):
                return [_ba(i) for i in x] if isinstance(x, list) else bytearray(x)

            rb = _ba(raw)
            _check(cut(ND.get_node_type, rb) == exp_ty and not cut(ND.is_blank_node, rb), "hexnode-classify",
                   "%s node at %r is classified differently when its items are bytearrays" % (node.kind, prefix))
            an_b, an_a = cut(ND.annotate_node, raw), cut(ND.annotate_node, rb)
            _check([tuple(s) for s in an_a.sub_segments] == [tuple(s) for s in an_b.sub_segments] and bytes(an_a.value) == bytes(an_b.value)
                   and tuple(an_a.suffix) == tuple(an_b.suffix),
                   "hexnode-classify", "annotate_node of the %s node at %r differs when its items are bytearrays" % (node.kind, prefix))
            if node.kind != "branch":
                ek = cut(ND.extract_key, raw)
                _check(tuple(ek) == node.path, "hexnode-extract-key",
                       "node at %r: extract_key=%r, written with %r" % (prefix, tuple(ek), node.path))
            ctx.count("hexnode_nodes")
        _check(cut(ND.get_node_type, b"") == 0 and cut(ND.is_blank_node, b""),
               "hexnode-classify", "blank node not classified blank")
        _check(cut(ND.decode_node, b"") == b"", "hexnode-classify", "decode_node(b'') not blank")
        _check(cut(ND.get_node_type, bytearray(b"")) == 0 and cut(ND.is_blank_node, bytearray(b"")),
               "hexnode-classify", "an empty bytearray is not classified as the blank node")
        # the blank node as it is stored in a database: rlp(b'') = 0x80
        blank = cut(ND.decode_node, b"\x80")
        _check(blank == b"" and cut(ND.get_node_type, blank) == 0 and cut(ND.is_blank_node, blank),
               "hexnode-classify", "decode_node(0x80) (the encoded blank node) gives %r" % (blank,))
    else:
        raise ValueError(kind)
    ctx.evaluated()
    key = (kind, {k: v for k, v in case.items() if k != "kind"})
    nontrivial = any(v not in ("", [], {}, None) for k, v in case.items() if k not in ("kind", "term", "sub"))
    ctx.shape(key, nontrivial)


def _listify(x):
    if isinstance(x, (list, tuple)):
        return [_listify(i) for i in x]
    return x


def _malformed(node):
    if node == b"":
        return True
    t = node[0]
    if t == 1:
        return len(node) != 65
    if t == 0:
        return len(node) <= 33
    if t == 2:
        return len(node) == 1
    return True


def _mk_binnode(t, length, rnd):
    """A byte string with type byte t and total length `length`; for a well-formed kv
    length the key-path bytes are a valid packing (their content is not at issue)."""
    if length == 0:
        return b""
    body = bytes(rnd.randrange(256) for _ in range(length - 1))
    if t == 0 and length > 33:
        npath = length - 33
        # a valid packing with exactly npath bytes: choose the bit length accordingly
        for nbits in range(max(1, 8 * npath - 8), 8 * npath + 1):
            bits = tuple(rnd.randrange(2) for _ in range(nbits))
            if len(refbin.pack_path(bits)) == npath:
                body = refbin.pack_path(bits) + body[npath:]
                break
    return bytes([t]) + body


def gen_cases(ctx):
    """Yield this shard's cases."""
    tier, rnd = ctx.tier, ctx.rnd
    idx = itertools.count()

    def mine():
        return next(idx) % ctx.nshards == ctx.shard

    maxn = 4 if tier == "quick" else 5
    for L in range(maxn + 1):
        for n in itertools.product(range(16), repeat=L):
            for t in (0, 1):
                if mine():
                    yield {"kind": "hp", "nibbles": list(n), "term": t}
    maxb = 12 if tier == "quick" else 18
    for L in range(maxb + 1):
        for b in itertools.product((0, 1), repeat=L):
            if mine():
                yield {"kind": "keypath", "bits": list(b)}
    for kind in ("nib", "bin"):
        if mine():
            yield {"kind": kind, "bytes": ""}
        for x in range(256):
            if mine():
                yield {"kind": kind, "bytes": bytes([x]).hex()}
        for x in range(65536):
            if mine():
                yield {"kind": kind, "bytes": x.to_bytes(2, "big").hex()}
    lengths = [0, 1, 2, 32, 33, 34, 64, 65, 66] + ([97] if tier == "thorough" else [])
    for t in range(256):
        for ln in lengths:
            if mine():
                yield {"kind": "binnode_bad", "node": _mk_binnode(t, ln, rnd).hex()}
    if ctx.shard == 0:
        yield {"kind": "binnode_bad", "none": True}
        # the library's own sentinel byte strings handed in as a serialized node (round 7: a
        # validator that lets keccak(b'') through was reused for the type-byte check); they are
        # judged like any other byte string, by their first byte and length
        from eth_hash.auto import keccak as _k
        for magic in (_k(b""), _k(b"\x80"), b"\x80", b"\x00" * 32, b"\xc0", _k(b"\xc0")):
            for node in (magic, magic + b"\x00", magic[:31], magic + magic, b"\x00" + magic,
                         b"\x01" + magic, b"\x02" + magic):
                yield {"kind": "binnode_bad", "node": node.hex()}
    sizes = [0, 1, 16, 31, 32, 33, 48, 63, 64, 65]
    for l in sizes:
        for r in sizes:
            if (l, r) != (32, 32) and mine():
                yield {"kind": "binnode_encode_odd", "l": l, "r": r}
    # random beyond the bounds
    nrand = (400 if tier == "quick" else 6000)
    for _ in range(nrand):
        L = rnd.randint(maxn + 1, 130)
        yield {"kind": "hp", "nibbles": [rnd.randrange(16) for _ in range(L)], "term": rnd.randrange(2)}
        L = rnd.randint(maxb + 1, 520)
        yield {"kind": "keypath", "bits": [rnd.randrange(2) for _ in range(L)]}
        b = bytes(rnd.randrange(256) for _ in range(rnd.randint(3, 64)))
        yield {"kind": "nib", "bytes": b.hex()}
        yield {"kind": "bin", "bytes": b.hex()}
    for _ in range(nrand // 4):
        h1 = bytes(rnd.randrange(256) for _ in range(32))
        h2 = bytes(rnd.randrange(256) for _ in range(32))
        yield {"kind": "binnode_ok", "sub": "branch", "l": h1.hex(), "r": h2.hex()}
        v = bytes(rnd.randrange(256) for _ in range(rnd.choice([1, 1, 2, 31, 32, 33, 64, 65, 100])))
        yield {"kind": "binnode_ok", "sub": "leaf", "v": v.hex()}
    from vt import gen

    for _ in range(30 if tier == "quick" else 300):
        model = gen.random_model(rnd, rnd.randint(1, 14))
        yield {"kind": "hexnode", "model": {k.hex(): v.hex() for k, v in model.items()}}


def run_shard(ctx):
    from vt.core import run_case_guarded

    first = {}
    for case in gen_cases(ctx):
        if case["kind"] not in first and len(case) > 1:
            first[case["kind"]] = case
        run_case_guarded(sys.modules[__name__], case, ctx)
        if ctx.full:
            break
    for k in ("hp", "keypath", "binnode_bad", "hexnode"):
        if k in first and ctx.shard == 0:
            ctx.sample(first[k])
    # samples list is capped at 3 by ctx; make sure at least one exists per shard
    if not ctx.samples and first:
        ctx.sample(next(iter(first.values())))
