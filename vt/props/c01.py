"""C01 - HexaryTrie behaves as a byte-string map under every history.

Deciding monitor: dict shadow model updated at the return event of each mutator; after every
operation (and after every operation inside an open squash_changes block) a probe sweep
through all four lookup spellings over stored keys, proper prefixes, extensions, mid-path
divergences, the empty key and fresh keys."""
import itertools
import sys

from vt import gen
from vt.core import run_case_guarded, shrink_list
from vt.engines import hexary_history as hh
from vt.ref.mpt import RefTrie

ID = "C01"
LEVEL = "exploration"
RULE = (
    "case = one generated history (set / delete / set-to-empty, method or dict syntax, direct "
    "or inside squash_changes committed or aborted, prune on/off) replayed on the real trie with "
    "a probe sweep after every operation; evaluations = histories; distinct = distinct "
    "(canonical trie shape with values abstracted to embedded/hashed, prune flag) seen by the "
    "probe sweep; non-trivial = at least 2 stored keys"
)
ASSUMPTIONS = [
    "dict model: last writer wins, b'' = absent",
    "batches are not nested (unsupported by ScratchDB, DESIGN.md section 5)",
]
EXHAUSTIVE = {
    "thorough": "all operation sequences of length <= 4 over 7 prefix-related keys x {set small, "
                "set 40-byte, delete} x prune {F,T}, plus the random histories",
}
# thorough tier: the repository's own tests replayed under these run-time contracts
REPO_TESTS = {"files": ['tests/core/test_hexary_trie.py', 'tests/core/test_proof.py', 'tests/core/test_hexary_trie_walk.py'], "contracts": ["hexary_set_get", "hexary_delete_get"]}
FLOORS = {
    "quick": {"probes": 100000, "probe_proper_prefix": 3000, "probe_extension": 3000,
              "probe_stored": 10000, "batch_commit": 200, "batch_abort": 100,
              "in_batch_sweeps": 300, "unobserved_ops": 2000},
    "thorough": {"probes": 1000000, "probe_proper_prefix": 30000, "probe_extension": 30000,
                 "probe_stored": 100000, "batch_commit": 2000, "batch_abort": 1000,
                 "in_batch_sweeps": 3000, "exhaustive_sequences": 100000, "unobserved_ops": 20000},
}

SMALL_KEYS = [b"", b"\x12", b"\x12\x34", b"\x12\x34\x56", b"\x12\x34\x57", b"\x12\x35", b"\x1f"]
SMALL_VALUES = [b"a", b"B" * 40]


class C01Runner(hh.Runner):
    def after_op(self, op):
        # not every history is observed after every operation: a run of writes with no read in
        # between is a different execution (nothing refreshes what a read may have remembered)
        p = self.case.get("observe_p", 1.0)
        if p < 1.0 and self.step < len(self.case["ops"]) and self.rnd.random() > p:
            self.ctx.count("unobserved_ops")
            return
        probes = gen.probe_keys(self.rnd, self.model)
        hh.lookup_sweep(self.trie, self.model, probes, self.ctx)
        self.ctx.count("sweeps")
        if len(self.model) >= 2:
            self.ctx.shape((RefTrie(self.model).shape(), self.prune))

    def after_batch_op(self, btrie, bmodel, op):
        p = self.case.get("observe_p", 1.0)
        if p < 1.0 and self.rnd.random() > p:
            self.ctx.count("unobserved_ops")
            return
        both = dict(self.model)
        both.update(bmodel)
        probes = gen.probe_keys(self.rnd, both, extra=2)
        hh.lookup_sweep(btrie, bmodel, probes, self.ctx, where="batch trie inside open batch: ")
        # the outer trie still answers for the pre-batch contents
        hh.lookup_sweep(self.trie, self.model, probes[::3], self.ctx,
                        where="outer trie while a batch is open: ")
        self.ctx.count("in_batch_sweeps")


def run_case(case, ctx):
    C01Runner(case, ctx).run()
    ctx.evaluated()


def shrink(case, monitor):
    return shrink_list(sys.modules[__name__], case, monitor)


def small_scope(ctx):
    """All op sequences of length <= 4 over SMALL_KEYS x {set small, set big, delete}."""
    menu = []
    for k in SMALL_KEYS:
        for v in SMALL_VALUES:
            menu.append(["set", k.hex(), v.hex(), 0])
        menu.append(["del", k.hex(), 1])
    idx = 0
    for L in range(1, 5):
        for seq in itertools.product(menu, repeat=L):
            for prune in (False, True):
                if idx % ctx.nshards == ctx.shard:
                    yield {"engine": "hh", "prune": prune, "pseed": idx, "ops": list(seq)}
                idx += 1


def run_shard(ctx):
    rnd = ctx.rnd
    mod = sys.modules[__name__]
    n = 250 if ctx.tier == "quick" else 2500
    maxops = 25 if ctx.tier == "quick" else 60
    for i in range(n):
        if i % 5 == 3:
            case = hh.gen_threshold_history(rnd)
            ctx.count("threshold_histories")
        elif i % 25 == 24:
            case = hh.gen_bulk_history(rnd, ctx.tier)
            case["observe_p"] = 0.2
            ctx.count("bulk_histories")
        else:
            case = hh.gen_history(rnd, rnd.randint(1, maxops), sp_p=0.04, bad_p=0.02)
            case["observe_p"] = rnd.choice([1.0, 1.0, 0.5, 0.2])
        if i < 2:
            ctx.sample(case)
        run_case_guarded(mod, case, ctx)
        if ctx.full:
            return
    if ctx.tier == "thorough":
        for case in small_scope(ctx):
            run_case_guarded(mod, case, ctx)
            ctx.count("exhaustive_sequences")
            if ctx.full:
                return
