"""C12 - BinaryTrie is a map with a canonical, history-independent root.

Deciding monitors: dict model with the refusal rule + vt.ref.bintrie (top-down canonical kv /
branch / leaf construction) compared after every operation of generated histories; an online
trace checker on the database (append-only, content-addressed) and re-reads of every earlier
root; a raising call must leave root and contents unchanged."""
import random
import sys

from trie import BinaryTrie

from vt.core import Violation, cut, hx, run_case_guarded, shrink_list
from vt.engines import binary as be
from vt.ref.bintrie import BLANK_HASH, RefBin, bits, unpack_path

ID = "C12"
LEVEL = "exploration"
RULE = (
    "case = one generated history of set / delete / set-to-empty / delete_subtrie over variable-length "
    "(prefix-conflicting), fixed-length and 32-byte keys, audited after every operation; evaluations = "
    "histories; distinct = distinct canonical binary-trie shapes (node kinds and kv path lengths) "
    "audited; non-trivial = at least 2 stored keys"
)
ASSUMPTIONS = [
    "deleting an absent key may do nothing or be refused with NodeOverrideError (both allowed by the statement)",
    "empty keys are not generated (the statement quantifies over non-empty keys)",
    "reference construction vt/ref/bintrie.py",
]
# thorough tier: the repository's own tests replayed under this run-time contract
REPO_TESTS = {"files": ["tests/core/test_bin_trie.py", "tests/core/test_branches_utils.py"],
              "contracts": ["binary_set_get"]}
FLOORS = {"quick": {k: 1 for k in [
    "audits", "lookups", "set_new", "set_overwrite", "set_refused_key_is_prefix", "set_refused_key_is_extension",
    "delete_present", "delete_absent", "dsub_present", "dsub_absent", "old_roots_reread", "db_writes_checked",
    "split_000", "split_001", "split_010", "split_011", "split_100", "split_101", "split_110", "split_111",
    "collapse_sibling_kv", "collapse_sibling_other", "dict_syntax_ops", "fork_steps"]}}
FLOORS["thorough"] = dict(FLOORS["quick"])


def classify_split(ref, key):
    """which of the eight kv-split cases inserting `key` into the canonical trie `ref` hits:
    (common prefix > 0, new key ends right after the diverging bit, old path ends right after it)"""
    kb = bits(key)
    h = ref.root_hash
    i = 0
    while h != BLANK_HASH:
        n = ref.nodes[h]
        if n[0] == 2:
            return None
        if n[0] == 1:
            if i >= len(kb):
                return None
            h = n[1:33] if kb[i] == 0 else n[33:]
            i += 1
            continue
        p = unpack_path(n[1:-32])
        rest = kb[i:]
        if rest[: len(p)] == p:
            i += len(p)
            h = n[-32:]
            continue
        c = 0
        while c < len(p) and c < len(rest) and p[c] == rest[c]:
            c += 1
        if c >= len(rest):
            return None
        return "split_%d%d%d" % (c > 0, len(rest) == c + 1, len(p) == c + 1)
    return None


def classify_collapse(ref, key):
    """deleting `key`: kind of the sibling that absorbs the collapsing branch"""
    kb = bits(key)
    h = ref.root_hash
    i = 0
    last = None
    while h != BLANK_HASH:
        n = ref.nodes[h]
        if n[0] == 2:
            break
        if n[0] == 1:
            sib = n[33:] if kb[i] == 0 else n[1:33]
            last = sib
            h = n[1:33] if kb[i] == 0 else n[33:]
            i += 1
            continue
        p = unpack_path(n[1:-32])
        i += len(p)
        h = n[-32:]
        # a kv node below a branch: the branch above still collapses onto its sibling
    if last is None:
        return None
    return "collapse_sibling_kv" if ref.nodes[last][0] == 0 else "collapse_sibling_other"


def audit(t, db, model, rnd, ctx, ref=None):
    ref = ref or RefBin(model)
    if t.root_hash != ref.root_hash:
        raise Violation("bin-root-canonical", "root_hash=%s, canonical root of the %d-key contents is %s" % (hx(t.root_hash), len(model), hx(ref.root_hash)))
    if not model and t.root_hash != BLANK_HASH:
        raise Violation("bin-root-blank", "empty trie has root %s" % hx(t.root_hash))
    for k in be.probes(rnd, model):
        got = cut(t.get, k)
        if got != model.get(k):
            raise Violation("bin-lookup", "get(%s)=%r, model says %r" % (hx(k), got, model.get(k)))
        if got is not None and not isinstance(got, bytes):
            raise Violation("bin-lookup", "get(%s) returned a %s, not a byte string" % (hx(k), type(got).__name__))
        if cut(t.exists, k) is not (k in model) or cut(t.__contains__, k) is not (k in model):
            raise Violation("bin-lookup", "exists(%s) disagrees with the model (%r)" % (hx(k), k in model))
        if cut(t.__getitem__, k) != model.get(k):
            raise Violation("bin-lookup", "trie[%s] disagrees with the model" % hx(k))
        ctx.count("lookups")
    ctx.count("audits")
    return ref


def run_case(case, ctx):
    rnd = random.Random(case.get("pseed", 0))
    t, db = be.new_trie(ctx)
    model = {}
    roots = []
    ref = RefBin(model)
    for op in case["ops"]:
        k = bytes.fromhex(op[1])
        pre = dict(model)
        cls = None
        if op[0] == "set" and k not in model and model:
            cls = classify_split(ref, k)
        elif op[0] in ("del", "sete") and k in model and len(model) > 1:
            cls = classify_collapse(ref, k)
        tag = be.apply(t, model, op, ctx)
        if cls and not tag.startswith("set_refused"):
            ctx.count(cls)
        if db.pending_trace_violation is not None:
            tv = db.pending_trace_violation
            raise Violation(tv.monitor, tv.detail)
        ref = audit(t, db, model, rnd, ctx)
        roots.append((t.root_hash, dict(model)))
        opi = len(roots) - 1
        if case.get("fork_at") == opi:
            # a fork: a shallow copy of the trie object (same database, same root, independent
            # afterwards) runs ahead through the next operations; the original, which has not
            # moved, must go on answering for its own contents, and so must the fork for its
            import copy
            fork, fmodel = copy.copy(t), dict(model)
            for fop in case["ops"][opi + 1: opi + 1 + case.get("fork_len", 4)]:
                be.apply(fork, fmodel, fop, ctx)
                audit(fork, db, fmodel, rnd, ctx)
                audit(t, db, model, rnd, ctx)
                ctx.count("fork_steps")
            audit(fork, db, fmodel, rnd, ctx)
            if db.pending_trace_violation is not None:
                tv = db.pending_trace_violation
                raise Violation(tv.monitor, tv.detail)
        if len(model) >= 2:
            ctx.shape(ref.shape())
    for root, m in roots:
        tt = BinaryTrie(db, root)
        for k, v in m.items():
            if cut(tt.get, k) != v:
                raise Violation("bin-old-root", "earlier root %s no longer reads key %s as it did" % (hx(root), hx(k)))
        ctx.count("old_roots_reread")
    ctx.evaluated()


def shrink(case, monitor):
    return shrink_list(sys.modules[__name__], case, monitor, field="ops")


def run_shard(ctx):
    rnd = ctx.rnd
    mod = sys.modules[__name__]
    n = 1200 if ctx.tier == "quick" else 8000
    for i in range(n):
        if i % 20 == 19:
            # SCALE: dozens of keys, deep tries
            case = be.gen_ops(rnd, rnd.randint(60, 120), mode=rnd.choice(["dense", "fix2", "k32", "var"]))
            ctx.count("bulk_histories")
        else:
            case = be.gen_ops(rnd, rnd.randint(1, 14 if ctx.tier == "quick" else 40))
        case["pseed"] = rnd.randrange(1 << 30)
        if rnd.random() < 0.25 and len(case["ops"]) >= 3:
            case["fork_at"] = rnd.randrange(len(case["ops"]) - 1)
            case["fork_len"] = rnd.randint(1, 6)
        if i == 1:
            ctx.sample(case)
        run_case_guarded(mod, case, ctx)
        if ctx.full:
            return
