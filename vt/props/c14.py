"""C14 - SparseMerkleTree is a fixed-depth map whose root and branches always verify.

Deciding monitor: dict model + vt.ref.smt (sparse recursive Merkle root with per-depth default
hashes) compared after every operation: get / exists, root hash, the tuple returned by
set / delete (path hashes root->leaf), branch(k) and calc_root(k, v, branch(k)) for readable
keys, from_db over the same database; clearing everything must restore the initial root."""
import random
import zlib
import sys

from trie.smt import SparseMerkleTree, calc_root

from vt.core import Raised, Violation, cut, hx, run_case_guarded, shrink_list, unhx
from vt.ref.smt import RefSMT, RefSMTState

ID = "C14"
LEVEL = "exploration"
RULE = (
    "case = (key size, default value, history of set / overwrite / delete / delete-absent over a key "
    "family whose members differ at chosen bit positions) audited after every operation; evaluations = "
    "histories; distinct = distinct (key size, default kind, set of bit positions at which stored keys "
    "differ from the base key, number of stored keys); non-trivial = at least 2 stored keys"
)
ASSUMPTIONS = [
    "an explicitly written b'' is a VALUE: its leaf is keccak(b'') and it reads as absent (get raises KeyError, exists false) also under a non-blank default; only a cleared key takes the default",
    "reference vt/ref/smt.py",
]
EXHAUSTIVE = {
    "quick": "key size 1: every pair of keys differing in one bit position (all 8 positions) set, checked and cleared",
    "thorough": "key sizes 1 and 2: every single-bit-flip neighbour of a base key at every bit position",
}
# thorough tier: the repository's own tests replayed under this run-time contract
REPO_TESTS = {"files": ["tests/core/test_smt.py"], "contracts": ["smt_set_get"]}
FLOORS = {"quick": {k: 1 for k in [
    "audits", "lookups_readable", "lookups_blank", "calc_root_checks", "returned_hashes_checked", "from_db_checks",
    "cleared_to_initial", "default_blank", "default_nonblank", "ks_1", "ks_2", "ks_3", "ks_8", "ks_20", "ks_32",
    "op_set_new", "op_overwrite", "op_delete_present", "op_delete_absent", "bitpos_pairs",
    "op_set_blank_default_nonblank", "op_set_blank_default_blank", "two_tree_interleavings",
    "reopened_through_from_db"]}}
FLOORS["thorough"] = dict(FLOORS["quick"])

DEFAULTS = [b"", b"", b"", b"\x00" * 32, b"dflt", b"D" * 64]



def pattern_key(rnd, depth, near=None):
    """Keys made of long runs of equal bits (all zeros, all ones, 0111..1, 1000..0, 0101.., a run
    of ones of random length, everything-but-one-bit): XORs of such keys are long runs of ones,
    which is where arithmetic on bit positions goes wrong.  With `near`, the key differs from
    it by such a run."""
    full = (1 << depth) - 1
    pats = [0, full, full >> 1, 1 << (depth - 1), 1, full ^ 1, int("01" * (depth // 2), 2), int("10" * (depth // 2), 2),
            (1 << rnd.randrange(1, depth + 1)) - 1, full ^ ((1 << rnd.randrange(0, depth)) - 1)]
    p = rnd.choice(pats)
    return (near ^ p) & full if near is not None and rnd.random() < 0.5 else p


def gen_case(rnd, tier, ks=None):
    ks = ks or rnd.choice([1, 1, 2, 3, 8, 20, 32] if tier == "quick" else list(range(1, 33)))
    depth = ks * 8
    default = rnd.choice(DEFAULTS)
    patterned = rnd.random() < 0.25
    base = pattern_key(rnd, depth) if patterned else rnd.getrandbits(depth)

    def rk():
        r = rnd.random()
        if patterned and r < 0.7:
            return pattern_key(rnd, depth, near=base)
        if r < 0.25:
            return base
        if r < 0.7:
            return base ^ (1 << rnd.randrange(depth))
        if r < 0.85:
            return base ^ (1 << rnd.randrange(depth)) ^ (1 << rnd.randrange(depth))
        return rnd.getrandbits(depth)

    ops = []
    keys = set()
    for _ in range(rnd.randint(1, 12 if tier == "quick" else 30)):
        k = rnd.choice(sorted(keys)) if keys and rnd.random() < 0.4 else rk()
        if rnd.random() < 0.65:
            r_ = rnd.random()
            if r_ < 0.1:
                v = b""   # an explicitly blank value: reads as absent, whatever the default is
            elif r_ < 0.2:
                # one-byte values that are somebody's magic number (0x80 = rlp(b''), 0xc0 = rlp([]))
                v = bytes([rnd.choice([0x00, 0x01, 0x7F, 0x80, 0x81, 0xC0, 0xFF])])
            elif r_ < 0.3:
                # a value that IS an interior node of the empty tree at some height (resolved at
                # run time: two equal child hashes), often given to two sibling keys
                ops.append(["set", k.to_bytes(ks, "big").hex(), "@empty%d" % rnd.randrange(1, depth + 1)])
                keys.add(k)
                if rnd.random() < 0.6:
                    ops.append(["set", (k ^ 1).to_bytes(ks, "big").hex(), ops[-1][2]])
                    keys.add(k ^ 1)
                continue
            else:
                # 64 bytes is the size of an interior node (two child hashes); 63/65 its neighbours
                v = bytes([rnd.randrange(1, 256)]) * rnd.choice([1, 2, 31, 32, 33, 40, 63, 64, 64, 65, 300])
            ops.append(["set", k.to_bytes(ks, "big").hex(), v.hex()])
            keys.add(k)
        else:
            ops.append(["del", k.to_bytes(ks, "big").hex(), rnd.randrange(2)])
            keys.discard(k)
    return {"ks": ks, "default": default.hex(), "base": base.to_bytes(ks, "big").hex(), "ops": ops,
            "pseed": rnd.randrange(1 << 30), "reopen": rnd.random() < 0.4}


def audit(smt, ref, m, default, ks, probes, ctx):
    st = RefSMTState(ref, m)
    exp_root = st.root
    if ref.depth <= 16 and exp_root != ref.root(m):
        raise RuntimeError("reference SMT implementations disagree")  # monitor error
    if smt.root_hash != exp_root:
        raise Violation("smt-root", "root_hash=%s, Merkle root of the full tree over the contents is %s" % (hx(smt.root_hash), hx(exp_root)))
    for q in probes:
        qb = q.to_bytes(ks, "big")
        val = m.get(q, default)
        if val == b"":
            if cut(smt.exists, qb) is not False or cut(smt.__contains__, qb) is not False:
                raise Violation("smt-lookup", "exists(%s) true for a blank key" % hx(qb))
            r = cut(smt.get, qb, expect=(KeyError,))
            if not isinstance(r, Raised):
                raise Violation("smt-lookup", "get(%s) returned %r for a blank key instead of raising KeyError" % (hx(qb), r))
            ctx.count("lookups_blank")
        else:
            r = cut(smt.get, qb)
            if not isinstance(r, bytes):
                raise Violation("smt-lookup", "get(%s) returned a %s, not a byte string" % (hx(qb), type(r).__name__))
            if r != val or cut(smt.__getitem__, qb) != val:
                raise Violation("smt-lookup", "get(%s)=%s, model says %s" % (hx(qb), hx(r), hx(val)))
            if cut(smt.exists, qb) is not True:
                raise Violation("smt-lookup", "exists(%s) false for a readable key" % hx(qb))
            br = cut(smt.branch, qb)
            if tuple(br) != st.sibling_hashes(q):
                raise Violation("smt-branch", "branch(%s) differs from the siblings of the reference tree" % hx(qb))
            if cut(calc_root, qb, val, br) != smt.root_hash:
                raise Violation("smt-calc-root", "calc_root(%s, value, branch) != root_hash" % hx(qb))
            ctx.count("calc_root_checks")
            ctx.count("lookups_readable")
    ctx.count("audits")


class HexLike(bytes):
    """a subclass of bytes, like hexbytes.HexBytes"""


def run_case(case, ctx):
    ks = case["ks"]
    default = unhx(case["default"])
    rnd = random.Random(case.get("pseed", 0))
    depth = ks * 8
    ref = RefSMT(ks, default)
    smt = cut(SparseMerkleTree, key_size=ks, default=default)
    init = smt.root_hash
    handed_out = []
    db0 = smt.db     # the database object of the first tree: every re-opening goes through it
    if init != ref.root({}):
        raise Violation("smt-root", "initial root differs from the reference root of the all-default tree")
    base = int.from_bytes(unhx(case["base"]), "big")
    m = {}
    # a second, independent tree alive at the same time (other default, other contents under the
    # SAME keys): reads are interleaved between the two, so anything one instance remembers
    # must not leak into the other
    odefault = b"other-default" if default != b"other-default" else b""
    oref = RefSMT(ks, odefault)
    other = cut(SparseMerkleTree, key_size=ks, default=odefault)
    mo = {}
    ctx.count("ks_%d" % ks)
    ctx.count("default_blank" if default == b"" else "default_nonblank")
    for opi, op in enumerate(case["ops"]):
        kb = unhx(op[1])
        k = int.from_bytes(kb, "big")
        sub = zlib.crc32(repr(op[:3]).encode()) % 4 == 2
        if sub:
            # keys and values of a SUBCLASS of bytes (hexbytes.HexBytes style) are byte strings too
            kb = HexLike(kb)
            ctx.count("ops_with_bytes_subclass_arguments")
        if case.get("reopen") and (case["pseed"] + opi) % 3 == 0:
            # carry on through a second object opened on the same database and root
            smt = cut(SparseMerkleTree.from_db, db0, smt.root_hash, key_size=ks, default=default)
            ctx.count("reopened_through_from_db")
        if op[0] == "set":
            if op[2].startswith("@empty"):
                d_ = min(int(op[2][6:]), ref.depth)
                v = ref.dh[d_] + ref.dh[d_]
                ctx.count("value_is_an_empty_tree_node")
            else:
                v = unhx(op[2])
            if sub:
                v = HexLike(v)
            ctx.count("op_overwrite" if k in m else "op_set_new")
            if v == b"":
                ctx.count("op_set_blank_default_nonblank" if default else "op_set_blank_default_blank")
            upd = cut(smt.set, kb, v) if not (len(op) > 3 and op[3]) else cut(smt.__setitem__, kb, v)
            m[k] = v
        else:
            ctx.count("op_delete_present" if k in m else "op_delete_absent")
            if op[2]:
                cut(smt.__delitem__, kb)
                upd = None
            else:
                upd = cut(smt.delete, kb)
            m.pop(k, None)
        if upd is not None:
            exp = RefSMTState(ref, m).path_hashes(k)
            if tuple(upd) != exp:
                what = "has %d hashes instead of %d" % (len(upd), len(exp)) if len(upd) != len(exp) else (
                    "is in the wrong order" if tuple(reversed(upd)) == exp else "differs at depth %d" % (
                        1 + next(i for i in range(len(exp)) if upd[i] != exp[i])))
                raise Violation("smt-returned-hashes", "tuple returned by %s(%s) %s" % (op[0], hx(kb), what))
            ctx.count("returned_hashes_checked")
            handed_out.append((upd, tuple(upd)))
        probes = set(m) | {base, base ^ 1, base ^ (1 << (depth - 1)), rnd.getrandbits(depth), k}
        audit(smt, ref, m, default, ks, sorted(probes), ctx)
        # the other tree: sometimes written under the same key, always read right after the
        # first tree was read (and the first tree again after it)
        if rnd.random() < 0.5:
            ov = bytes([rnd.randrange(1, 256)]) * 5
            cut(other.set, kb, ov)
            mo[k] = ov
        few = sorted(probes)[:3] + [k]
        audit(other, oref, mo, odefault, ks, few, ctx)
        audit(smt, ref, m, default, ks, few, ctx)
        ctx.count("two_tree_interleavings")
        s2 = cut(SparseMerkleTree.from_db, db0, smt.root_hash, key_size=ks, default=default)
        for q in list(m)[:4]:
            qb = q.to_bytes(ks, "big")
            a = cut(s2.get, qb, expect=(KeyError,))
            b = cut(smt.get, qb, expect=(KeyError,))
            if isinstance(a, Raised) != isinstance(b, Raised) or (not isinstance(a, Raised) and a != b):
                raise Violation("smt-from-db", "from_db(db, root).get(%s) reads differently from the tree" % hx(qb))
        if s2.root_hash != smt.root_hash:
            raise Violation("smt-from-db", "from_db root differs")
        ctx.count("from_db_checks")
        diffbits = tuple(sorted({(base ^ q).bit_length() for q in m}))
        ctx.shape((ks, default == b"", diffbits, len(m)), len(m) >= 2)
        if len({(base ^ q).bit_length() for q in m}) >= 2:
            ctx.count("bitpos_pairs")
    # what set/delete handed out earlier is the caller's: it must not change afterwards
    for obj, was in handed_out:
        if tuple(obj) != was:
            raise Violation("smt-returned-hashes", "a tuple of path hashes returned by an earlier set/delete changed after later operations")
    for k in list(m):
        cut(smt.delete, k.to_bytes(ks, "big"))
    if smt.root_hash != init:
        raise Violation("smt-clear-root", "root after clearing every key differs from the initial root")
    ctx.count("cleared_to_initial")
    ctx.evaluated()


def shrink(case, monitor):
    return shrink_list(sys.modules[__name__], case, monitor, field="ops")


def small_scope(ctx):
    idx = 0
    sizes = [1] if ctx.tier == "quick" else [1, 2]
    for ks in sizes:
        depth = ks * 8
        for default in (b"", b"dflt"):
            for base in ([0x00, 0xA5, 0xFF] if ks == 1 else [0x0000, 0xA55A]):
                for bit in range(depth):
                    if idx % ctx.nshards == ctx.shard:
                        other = base ^ (1 << bit)
                        ops = [["set", base.to_bytes(ks, "big").hex(), b"v1".hex()],
                               ["set", other.to_bytes(ks, "big").hex(), (b"W" * 33).hex()],
                               ["del", base.to_bytes(ks, "big").hex(), 0],
                               ["set", base.to_bytes(ks, "big").hex(), b"v3".hex()]]
                        yield {"ks": ks, "default": default.hex(), "base": base.to_bytes(ks, "big").hex(), "ops": ops, "pseed": idx}
                    idx += 1


def run_shard(ctx):
    rnd = ctx.rnd
    mod = sys.modules[__name__]
    n = 120 if ctx.tier == "quick" else 1000
    for i in range(n):
        case = gen_case(rnd, ctx.tier)
        if i == 1:
            ctx.sample(case)
        run_case_guarded(mod, case, ctx)
        if ctx.full:
            return
    for case in small_scope(ctx):
        run_case_guarded(mod, case, ctx)
        ctx.count("exhaustive_cases")
        if ctx.full:
            return
