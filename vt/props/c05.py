"""C05 - squash_changes is an all-or-nothing batch.

Deciding monitors (crash-point enumeration): for a generated (prior history, batch, later
history) every way of leaving the block is executed from scratch - normal exit, the caller's
exception after i operations for every i, an exception raised by the trie itself inside the
block (ValidationError from a bad argument at every position, MissingTrieNode from a removed
node body), and for non-pruning tries every failing commit write.  Observed: every event on
the underlying database while the block is open (must be reads only), snapshots of root /
database / reference counts at block entry vs exit, the reference trie of the batch's model
on commit, and a twin trie that applies the same operations without batching for everything
that happens afterwards."""
import random
import sys

from trie import HexaryTrie
from trie.exceptions import MissingTrieNode, ValidationError

from vt import gen
from vt.core import Raised, Violation, cut, hx, run_case_guarded, unhx
from vt.engines import hexary_history as hh
from vt.monitor.db import InjectedWriteFailure, RecordingDB, TraceViolation
from vt.ref.mpt import RefTrie

ID = "C05"
LEVEL = "fault_enumeration"
RULE = (
    "case = (prior history, batch of operations, one crash point, later history); crash points "
    "per batch: none (commit), caller exception after i ops for every i=0..n (once as an Exception subclass, once as a non-Exception BaseException: own subclass / KeyboardInterrupt / GeneratorExit), bad-argument "
    "ValidationError at every position, MissingTrieNode from removed node bodies, every failing "
    "commit write n=1..W (non-pruning); evaluations = (batch, crash point) executions; distinct = "
    "distinct (canonical shape before the batch, shape of the batch's result, crash kind, prune); "
    "non-trivial = the batch changes the contents or is aborted after at least one operation"
)
ASSUMPTIONS = [
    "batches are not nested; the database fails only in the ways injected (missing bodies, failing writes)",
    "after a failed commit additional content-addressed entries may exist (not excluded by the statement)",
    "reference trie vt/ref/mpt.py; twin trie = same code without batching (isolates the batch mechanism)",
]
FLOORS = {
    "quick": {"crash_none": 300, "crash_caller": 1000, "crash_caller_baseexception": 300, "crash_badarg": 500, "crash_missing_aborted": 50,
              "crash_commit_write": 500, "abort_audits": 1500, "commit_audits": 300, "crash_reroot_old": 50,
              "crash_reroot_missing": 100, "blocks_inside_except_handler": 500, "crash_outer_write": 50,
              "post_ops_twin_compared": 2000, "open_batch_db_events": 5000},
    "thorough": {"crash_none": 3000, "crash_caller": 10000, "crash_caller_baseexception": 3000, "crash_badarg": 5000,
                 "crash_missing_aborted": 500, "crash_commit_write": 5000, "abort_audits": 15000,
                 "crash_reroot_old": 500, "crash_reroot_missing": 1000, "blocks_inside_except_handler": 5000,
                 "commit_audits": 3000, "post_ops_twin_compared": 20000, "open_batch_db_events": 50000},
}

BAD_ARGS = [None, "str", 7, bytearray(b"ab"), [1, 2]]


def _snap(trie, db, prune):
    return (trie.root_hash, db.snapshot(), hh.nz(dict(trie.ref_count)) if prune else None)


def _apply_untracked(trie, model, op, twin, twin_state):
    """pre / post operation on the main trie (guarded) and on the twin (best effort)"""
    if op[0] == "batch":
        _, sub, abort = op[:3]
        exc_cls = hh.abort_exc(op)
        bm = dict(model)

        def block():
            with trie.squash_changes() as b:
                for i, o in enumerate(sub):
                    if abort == i:
                        raise exc_cls()
                    hh.apply_plain(b, bm, o)
                if abort == len(sub):
                    raise exc_cls()

        res = cut(block, expect=hh.ALL_ABORTS)
        if not isinstance(res, Raised):
            model.clear()
            model.update(bm)
            if twin_state["ok"]:
                for o in sub:
                    _twin_apply(twin, o, twin_state)
    else:
        hh.apply_plain(trie, model, op)
        if twin_state["ok"]:
            _twin_apply(twin, op, twin_state)


def _twin_apply(twin, op, twin_state):
    if op[0] in ("sp", "badset"):
        return  # an abandoned savepoint / a refused write: nothing happened
    try:
        k = unhx(op[1])
        if op[0] == "set":
            twin.set(k, unhx(op[2]))
        else:
            twin.delete(k)
    except Exception:
        twin_state["ok"] = False


def _twin_compare(trie, db, twin, twin_db, prune, model, rnd, ctx, where):
    """Everything observable afterwards must equal the trie that never used a batch."""
    if trie.root_hash != twin.root_hash:
        raise Violation("after-batch-root", "%sroot %s differs from the root %s of a trie that applied the "
                        "same operations without batching" % (where, hx(trie.root_hash), hx(twin.root_hash)))
    for k in gen.probe_keys(rnd, model, extra=2):
        try:
            exp = twin.get(k)
        except Exception:
            continue
        got = cut(trie.get, k)
        if got != exp:
            raise Violation("after-batch-lookup", "%sget(%s)=%s, unbatched twin says %s" % (where, hx(k), hx(got), hx(exp)))
    if prune:
        if set(db.raw()) != set(twin_db):
            raise Violation("after-batch-db", "%sdatabase keys differ from the unbatched twin: %d extra, %d missing"
                            % (where, len(set(db.raw()) - set(twin_db)), len(set(twin_db) - set(db.raw()))))
        if hh.nz(dict(trie.ref_count)) != hh.nz(dict(twin.ref_count)):
            raise Violation("after-batch-refcount", "%sreference counts differ from the unbatched twin" % where)
    ctx.count("post_ops_twin_compared")


def run_case(case, ctx):
    prune = case["prune"]
    crash = case["crash"]
    kind = crash["kind"]
    rnd = random.Random(case.get("pseed", 0))
    dictsub = case.get("db") == "dictsub" and kind in ("none", "caller", "reroot_old", "reroot_missing", "badarg")
    # a dict SUBCLASS that overrides the item protocol (hexary_history.PrefixDict): no event
    # recording there, but everything that is judged on states is judged
    db = hh.PrefixDict() if dictsub else RecordingDB()
    if dictsub:
        ctx.count("cases_over_a_dict_subclass")
    if prune and case.get("rc") == "counter":
        from collections import Counter

        t = HexaryTrie(db, prune=True, ref_count=Counter())
        ctx.count("ref_counts_in_a_counter")
    else:
        t = HexaryTrie(db, prune=prune)
    model = {}
    twin_db = {}
    twin = HexaryTrie(twin_db, prune=prune)
    twin_state = {"ok": True}
    roots = []
    for op in case["pre"]:
        _apply_untracked(t, model, op, twin, twin_state)
        roots.append((t.root_hash, dict(model)))
    FOREIGN = RefTrie({b"not-in-this-database": b"v" * 40}).root_hash
    old_root, old_model = roots[crash.get("pick", 0) % len(roots)] if roots else (None, None)

    sub = case["batch"] if not crash.get("idle") else []
    model0 = dict(model)
    pre_shape = RefTrie(model).shape()

    # ---- online trace specification: the underlying db is read-only while the block is open
    state = {"open": False, "events": 0}

    def no_mutation_while_open(dbobj, op, key, value):
        if state["open"] and not state.get("outer_writing"):
            state["events"] += 1
            if op in ("set", "del", "pop", "clear"):
                raise TraceViolation("batch-db-mutated-while-open",
                                     "underlying database received %s(%s) while the squash_changes block was open" % (op, hx(key)))

    db.checkers.append(no_mutation_while_open)

    removed = {}
    if kind == "missing":
        keys = sorted(db.raw())
        if keys:
            dens = crash.get("density", 0.5)
            hide = [h for h in keys if rnd.random() < dens] or [rnd.choice(keys)]
            for h in hide:
                removed[h] = db.raw().pop(h)
    before = _snap(t, db, prune)
    bmodel = dict(model)
    info = {"final_root": None, "raised_at": None}
    caller_exc = hh.ABORT_EXC[crash.get("exc", 0) % len(hh.ABORT_EXC)]
    db.reset_counts()
    if kind == "commit_write":
        db.fail_write_at = crash["n"]
        if crash.get("wexc") == "keyerror":
            from vt.monitor.db import InjectedKeyError

            db.fail_write_exc = InjectedKeyError
            ctx.count("commit_write_fails_with_keyerror")

    def block():
        with t.squash_changes() as b:
            state["open"] = True
            try:
                for i, o in enumerate(sub):
                    if kind == "outer_write" and crash["at"] == i:
                        # the caller writes to the OUTER trie while the block is open (its own
                        # business; the batch does not see it and its final root still wins)
                        state["outer_writing"] = True
                        try:
                            hh.apply_plain(t, dict(model), crash["op"])
                        finally:
                            state["outer_writing"] = False
                    if kind == "reroot_old" and crash["at"] == i:
                        b.root_hash = old_root
                        bmodel.clear()
                        bmodel.update(old_model)
                    if kind == "caller" and crash["after"] == i:
                        raise caller_exc()
                    if kind == "badarg" and crash["at"] == i:
                        bad = BAD_ARGS[crash.get("arg", 0) % len(BAD_ARGS)]
                        which = crash.get("which", 0) % 3
                        if which == 0:
                            b.set(bad, b"v")
                        elif which == 1:
                            b.set(unhx(o[1]) if o[0] != "sp" else b"k", bad)
                        else:
                            b.delete(bad)
                        raise Violation("batch-badarg-accepted", "bad argument %r accepted inside the block" % (bad,))
                    info["raised_at"] = i
                    if kind == "missing" and o[0] == "sp":
                        continue
                    if kind == "missing":
                        # let the trie's own exception propagate out of the block
                        k = unhx(o[1])
                        if o[0] == "set":
                            b.set(k, unhx(o[2]))
                            bmodel[k] = unhx(o[2])
                        else:
                            b.delete(k)
                            bmodel.pop(k, None)
                    else:
                        hh.apply_plain(b, bmodel, o)
                if kind == "caller" and crash["after"] >= len(sub):
                    raise caller_exc()
                if kind == "badarg" and crash["at"] >= len(sub):
                    b.set(None, b"v")
                    raise Violation("batch-badarg-accepted", "None key accepted inside the block")
                if kind == "outer_write" and crash["at"] >= len(sub):
                    state["outer_writing"] = True
                    try:
                        hh.apply_plain(t, dict(model), crash["op"])
                    finally:
                        state["outer_writing"] = False
                if kind == "reroot_old" and crash["at"] >= len(sub):
                    b.root_hash = old_root
                    bmodel.clear()
                    bmodel.update(old_model)
                if kind == "reroot_missing":
                    b.root_hash = FOREIGN
                info["final_root"] = b.root_hash
            finally:
                state["open"] = False

    def block_in_handler():
        # the same block, entered while the caller is handling an unrelated exception
        try:
            raise RuntimeError("unrelated exception being handled by the caller")
        except RuntimeError:
            return block()

    if case.get("in_handler"):
        ctx.count("blocks_inside_except_handler")
    res = cut(block_in_handler if case.get("in_handler") else block,
              expect=hh.ALL_ABORTS + (ValidationError, MissingTrieNode, InjectedWriteFailure))
    db.fail_write_at = None
    ctx.count("open_batch_db_events", state["events"])
    if db.pending_trace_violation is not None:
        tv = db.pending_trace_violation
        raise Violation(tv.monitor, tv.detail)
    commit_writes = db.writes if not dictsub else 0

    aborted = isinstance(res, Raised)
    if aborted:
        exc = res.exc
        expected = {"caller": caller_exc, "badarg": ValidationError, "missing": MissingTrieNode,
                    "commit_write": InjectedWriteFailure}.get(kind)
        if expected is None or not isinstance(exc, expected):
            raise Violation("batch-unexpected-exception", "block left by %s: %s (crash kind %s)" % (
                type(exc).__name__, str(exc)[:200], kind))
    elif kind in ("caller", "badarg"):
        raise Violation("batch-swallowed-exception", "an exception raised inside the block (%s) did not propagate" % kind)

    after = _snap(t, db, prune)
    if aborted and kind != "commit_write":
        # ---------------------------------------------------------------- nothing happened
        if after[0] != before[0]:
            raise Violation("batch-abort-root", "root changed by a block left by %s: %s -> %s" % (
                type(res.exc).__name__, hx(before[0]), hx(after[0])))
        if after[1] != before[1]:
            raise Violation("batch-abort-db", "underlying database changed by a block left by %s: %d entries -> %d, %d differ" % (
                type(res.exc).__name__, len(before[1]), len(after[1]),
                len(set(before[1].items()) ^ set(after[1].items()))))
        if prune and after[2] != before[2]:
            raise Violation("batch-abort-refcount", "reference counts changed by a block left by %s (%d entries differ)" % (
                type(res.exc).__name__, len(set(before[2].items()) ^ set(after[2].items()))))
        ctx.count("abort_audits")
        ctx.count("crash_" + kind + ("_aborted" if kind == "missing" else ""))
        if kind == "caller" and caller_exc is not hh.Boom:
            ctx.count("crash_caller_baseexception")
        for h, v in removed.items():
            db.raw()[h] = v
        outcome = "abort"
    elif aborted and kind == "commit_write":
        # ------------------------------------------- failed commit of a non-pruning trie
        if after[0] != before[0]:
            raise Violation("batch-commitfail-root", "root changed although commit write #%d failed" % crash["n"])
        for k, v in before[1].items():
            if after[1].get(k) != v:
                raise Violation("batch-commitfail-db", "entry %s present before the block was %s by a failed commit" % (
                    hx(k), "removed" if k not in after[1] else "changed"))
        ctx.count("abort_audits")
        ctx.count("crash_commit_write")
        # the trie must still be usable: the same batch, retried, commits
        bmodel = dict(model)

        def retry():
            with t.squash_changes() as b:
                for o in sub:
                    hh.apply_plain(b, bmodel, o)

        cut(retry)
        ref = RefTrie(bmodel)
        if t.root_hash != ref.root_hash:
            raise Violation("batch-commitfail-retry", "batch retried after a failed commit gives root %s, canonical %s" % (
                hx(t.root_hash), hx(ref.root_hash)))
        if not set(ref.reach()) <= set(db.raw()):
            raise Violation("batch-commitfail-retry", "nodes of the new root missing after the retried commit")
        model = bmodel
        if twin_state["ok"]:
            for o in sub:
                _twin_apply(twin, o, twin_state)
        outcome = "commit"
    else:
        # -------------------------------------------------------------------- normal exit
        if kind == "reroot_missing":
            # the batch ended on a root whose body is not in the database: the outer trie must
            # still adopt it (it is "the batch's final root"); nothing old may be lost
            if t.root_hash != FOREIGN:
                raise Violation("batch-root", "the batch ended on root %s (assigned, body not in the database) but the outer root is %s" % (
                    hx(FOREIGN), hx(t.root_hash)))
            if not prune:
                for k, v in before[1].items():
                    if after[1].get(k) != v:
                        raise Violation("batch-removed-existing", "entry %s present before the block was removed or changed" % hx(k))
            ctx.count("crash_reroot_missing")
            ctx.evaluated()
            return {"commit_writes": commit_writes}
        ref = RefTrie(bmodel)
        if kind == "missing":
            # committed although bodies were removed: only the root claim is checked
            if t.root_hash != ref.root_hash:
                raise Violation("batch-root", "root after commit %s, canonical root of the result %s" % (hx(t.root_hash), hx(ref.root_hash)))
            ctx.count("crash_missing_committed")
            ctx.evaluated()
            return {"commit_writes": commit_writes}
        if t.root_hash != info["final_root"]:
            raise Violation("batch-root", "outer root %s is not the batch's final root %s" % (hx(t.root_hash), hx(info["final_root"])))
        if t.root_hash != ref.root_hash:
            raise Violation("batch-root", "root after commit %s, canonical root of the result %s" % (hx(t.root_hash), hx(ref.root_hash)))
        reach = set(ref.reach())
        have = set(after[1])
        if not reach <= have:
            raise Violation("batch-nodes-present", "%d node(s) needed for the new root are not in the underlying database" % len(reach - have))
        if not prune:
            for k, v in before[1].items():
                if after[1].get(k) != v:
                    raise Violation("batch-removed-existing", "entry %s present before the block was %s by the commit of a non-pruning trie" % (
                        hx(k), "removed" if k not in after[1] else "changed"))
        added = have - set(before[1])
        # (when the batch was pointed at another root by assignment, what it wrote before that
        # is unreachable by construction: "no intermediate node is added" is a statement about
        # batches that change their contents through set/delete only)
        if kind not in ("reroot_old", "outer_write") and not added <= reach:
            raise Violation("batch-intermediate-leaked", "%d entr(ies) added by the commit are not part of the resulting trie" % len(added - reach))
        ctx.count("commit_audits")
        ctx.count("crash_none" if kind == "none" else ("crash_%s" % kind if kind in ("reroot_old", "outer_write") else "crash_%s_nofault" % kind))
        if kind == "outer_write":
            twin_state["ok"] = False      # the twin has no batch to be overtaken by
        model = bmodel
        if twin_state["ok"]:
            for i, o in enumerate(sub):
                if kind == "reroot_old" and crash["at"] == i:
                    twin.root_hash = old_root
                _twin_apply(twin, o, twin_state)
            if kind == "reroot_old" and crash["at"] >= len(sub):
                twin.root_hash = old_root
        outcome = "commit"

    nontrivial = (outcome == "commit" and model != model0) or (
        outcome == "abort" and info["raised_at"] is not None)
    ctx.shape((pre_shape, RefTrie(model).shape(), kind, prune), nontrivial)

    # ---- afterwards: the trie must behave exactly like one that never used a batch
    if twin_state["ok"]:
        _twin_compare(t, db, twin, twin_db, prune, model, rnd, ctx, "right after the block (%s): " % outcome)
    for j, op in enumerate(case["post"]):
        _apply_untracked(t, model, op, twin, twin_state)
        if not twin_state["ok"]:
            ctx.count("twin_failed_too")
            break
        _twin_compare(t, db, twin, twin_db, prune, model, rnd, ctx,
                      "%d op(s) after a block that ended in %s: " % (j + 1, outcome))
    ctx.evaluated()
    return {"commit_writes": commit_writes}


def shrink(case, monitor):
    from vt.core import shrink_list
    mod = sys.modules[__name__]
    c = shrink_list(mod, case, monitor, field="post")
    c = shrink_list(mod, c, monitor, field="pre")
    return c


def gen_base(rnd, tier):
    prune = bool(rnd.randrange(2))
    universe = gen.KeyUniverse(rnd)
    pool = gen.value_pool(rnd)
    keys = set()
    pre = []
    for _ in range(rnd.randint(0, 15)):
        if rnd.random() < 0.12:
            n = rnd.randint(0, 3)
            bk = set(keys)
            sub = []
            for _ in range(n):
                o = hh.gen_op(rnd, universe, pool, bk)
                hh._track(o, bk)
                sub.append(o)
            abort = rnd.randint(0, n) if rnd.random() < 0.4 else None
            if abort is not None and rnd.random() < 0.5:
                pre.append(["batch", sub, abort, rnd.randrange(1, len(hh.ABORT_EXC))])
            else:
                pre.append(["batch", sub, abort])
            if abort is None:
                keys = bk
        else:
            o = hh.gen_op(rnd, universe, pool, keys)
            hh._track(o, keys)
            pre.append(o)
    bk = set(keys)
    batch = []
    big = tier_big(rnd, tier)
    for _ in range(rnd.randint(250, 420) if big else rnd.randint(0, 5)):
        if not big and rnd.random() < 0.1:
            # a savepoint: an inner block on the batch trie, abandoned and caught inside the batch
            sk = set(bk)
            batch.append(["sp", [hh.gen_op(rnd, universe, pool, sk) for _ in range(rnd.randint(1, 3))]])
            continue
        o = hh.gen_op(rnd, universe, pool, bk)
        hh._track(o, bk)
        batch.append(o)
    post = []
    pk = set(bk) | set(keys)
    for _ in range(rnd.randint(3, 8)):
        o = hh.gen_op(rnd, universe, pool, pk)
        hh._track(o, pk)
        post.append(o)
    return {"engine": "c05", "prune": prune, "pseed": rnd.randrange(1 << 30), "pre": pre,
            "batch": batch, "post": post, "universe": universe.kind, "big": big,
            "db": "dictsub" if rnd.random() < 0.15 else "recording",
            "rc": "counter" if rnd.random() < 0.2 else "default",
            "in_handler": rnd.random() < 0.25}


def tier_big(rnd, tier):
    """SCALE: now and then one batch of hundreds of operations (well over a thousand buffered
    database entries)"""
    return rnd.random() < (0.03 if tier == "quick" else 0.02)


def crash_points(base, rnd, commit_writes):
    n = len(base["batch"])
    yield {"kind": "none"}
    # the batch ends on a root it was pointed at by assignment (a public attribute; the
    # repository's own tests do this): an earlier root of a non-pruning trie, or a root whose
    # body is not in the database at all
    if not base["prune"] and base["pre"]:
        yield {"kind": "reroot_old", "at": rnd.randint(0, n), "pick": rnd.randrange(1000)}
    yield {"kind": "reroot_missing"}
    yield {"kind": "reroot_missing", "idle": True}      # nothing but the assignment happens in the block
    if not base["prune"] and base["pre"]:
        yield {"kind": "reroot_old", "at": 0, "pick": rnd.randrange(1000), "idle": True}
    if not base["prune"] and base["post"]:
        # an outer write while the block is open, with the batch as generated and with an idle batch
        yield {"kind": "outer_write", "at": rnd.randint(0, n), "op": base["post"][0]}
        yield {"kind": "outer_write", "at": 0, "op": base["post"][0], "idle": True}
    if base.get("big"):
        yield {"kind": "caller", "after": n}
        yield {"kind": "caller", "after": n // 2, "exc": 1}
        return
    for i in range(n + 1):
        yield {"kind": "caller", "after": i}
        # the same crash point, left by an exception that is not an Exception
        # (BaseException subclass / KeyboardInterrupt / GeneratorExit)
        yield {"kind": "caller", "after": i, "exc": 1 + (i + n) % 7}
    for i in range(n + 1):
        yield {"kind": "badarg", "at": i, "arg": rnd.randrange(len(BAD_ARGS)), "which": rnd.randrange(3)}
    if n:
        for dens in (0.3, 1.0):
            yield {"kind": "missing", "density": dens}
    if not base["prune"]:
        for w in range(1, commit_writes + 1):
            yield {"kind": "commit_write", "n": w}
            if w % 2 == 0 or w == commit_writes:
                yield {"kind": "commit_write", "n": w, "wexc": "keyerror"}


def run_shard(ctx):
    rnd = ctx.rnd
    mod = sys.modules[__name__]
    nbase = 45 if ctx.tier == "quick" else 450
    for i in range(nbase):
        base = gen_base(rnd, ctx.tier)
        if base.get("big"):
            ctx.count("big_batches")
        # dry run: number of writes the commit performs (crash point enumeration bound)
        c0 = dict(base)
        c0["crash"] = {"kind": "none"}
        try:
            from vt.core import NullCtx
            info = run_case(c0, NullCtx(ID))
            w = info["commit_writes"]
        except Violation:
            w = 0
        for crash in crash_points(base, rnd, w):
            case = dict(base)
            case["crash"] = crash
            if i < 1 and crash["kind"] in ("caller", "commit_write"):
                ctx.sample(case)
            run_case_guarded(mod, case, ctx)
            if ctx.full:
                return
