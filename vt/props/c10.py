"""C10 - NodeIterator enumerates contents in key order; next() is the strict successor.

Deciding monitor: keys()/items()/values() are compared as lists with the sorted dict model;
next(k) with the least stored key strictly greater than k for a probe set of query keys (stored
keys, prefixes, extensions, +-1 neighbours, the empty key, random keys); nodes() with the
reference trie's pre-order (prefixes, annotation) and with traverse(prefix)."""
import random
import sys

from trie.exceptions import TraversedPartialPath
from trie.iter import NodeIterator

from vt import gen
from vt.core import Raised, Violation, cut, hx, run_case_guarded, shrink_list
from vt.engines import hexary_static as hs
from vt.ref.mpt import annot

ID = "C10"
LEVEL = "exploration"
RULE = (
    "case = one trie (built by a short history, prune on/off) x all iterator entry points x a probe "
    "set of query keys for next(); evaluations = tries; distinct = distinct canonical shapes iterated; "
    "non-trivial = at least 2 stored keys"
)
ASSUMPTIONS = ["for the empty trie nodes() may yield nothing or the single blank root node",
               "reference pre-order from vt/ref/mpt.py"]
FLOORS = {
    "quick": {"next_queries": 30000, "next_none": 1000, "nodes_compared": 10000, "items_compared": 5000,
              "q_prefix_of_stored": 2000, "q_extension_of_stored": 2000, "q_stored": 3000},
    "thorough": {"next_queries": 300000, "next_none": 10000, "nodes_compared": 100000,
                 "items_compared": 50000, "q_prefix_of_stored": 20000, "q_extension_of_stored": 20000,
                 "q_stored": 30000},
}


def neighbours(k):
    out = []
    if k:
        last = k[-1]
        if last < 255:
            out.append(k[:-1] + bytes([last + 1]))
        if last > 0:
            out.append(k[:-1] + bytes([last - 1]))
        out.append(k[:-1])
    out.append(k + b"\x00")
    out.append(k + b"\xff")
    return out


def run_case(case, ctx):
    t, db, model, ref = hs.build(case)
    rnd = random.Random(case.get("pseed", 0))
    it = NodeIterator(t)
    sk = sorted(model)
    items = cut(lambda: list(it.items()))
    if items != [(k, model[k]) for k in sk]:
        raise Violation("iter-items", "items() = %r, sorted contents = %r" % (
            [(hx(a), hx(b)[:8]) for a, b in items], [(hx(k), hx(model[k])[:8]) for k in sk]))
    keys = cut(lambda: list(it.keys()))
    if keys != sk:
        raise Violation("iter-keys", "keys() = %r, sorted keys = %r" % ([hx(k) for k in keys], [hx(k) for k in sk]))
    values = cut(lambda: list(it.values()))
    if values != [model[k] for k in sk]:
        raise Violation("iter-values", "values() not the values in key order")
    ctx.count("items_compared", len(sk))
    # nodes(): pre-order, each equal to traverse(prefix)
    nodes = cut(lambda: list(it.nodes()))
    exp = ref.preorder()
    if not exp:
        if not (nodes == [] or (len(nodes) == 1 and tuple(nodes[0][0]) == () and hs.pub(nodes[0][1]) == annot(None))):
            raise Violation("iter-nodes", "nodes() of the empty trie yields %r" % (nodes,))
    else:
        got_prefixes = [tuple(int(x) for x in p) for p, _ in nodes]
        if got_prefixes != [p for p, _ in exp]:
            raise Violation("iter-nodes-order", "nodes() prefixes %r, canonical pre-order %r" % (got_prefixes, [p for p, _ in exp]))
        for (p, n), (_, e) in zip(nodes, exp):
            if hs.pub(n) != annot(e):
                raise Violation("iter-nodes-annotation", "nodes() gives %r at %r, canonical node is %r" % (hs.pub(n), tuple(p), annot(e)))
            tr = cut(t.traverse, p, expect=(TraversedPartialPath,))
            if isinstance(tr, Raised) or hs.pub(tr) != hs.pub(n):
                raise Violation("iter-nodes-vs-traverse", "node yielded at %r differs from traverse(prefix)" % (tuple(p),))
            ctx.count("nodes_compared")
    # next()
    first = cut(it.next)
    if first != (sk[0] if sk else None):
        raise Violation("iter-next-first", "next() = %r, least key is %r" % (first, sk[0] if sk else None))
    queries = set(gen.probe_keys(rnd, model, extra=4))
    for k in sk:
        queries.update(neighbours(k))
    for q in sorted(queries):
        got = cut(it.next, q)
        greater = [k for k in sk if k > q]
        e = greater[0] if greater else None
        if got != e:
            raise Violation("iter-next", "next(%s) = %s, least stored key greater than it is %s (keys %r)" % (
                hx(q), hx(got) if got is not None else None, hx(e) if e is not None else None, [hx(k) for k in sk]))
        ctx.count("next_queries")
        if e is None:
            ctx.count("next_none")
        if q in model:
            ctx.count("q_stored")
        elif any(s.startswith(q) for s in sk):
            ctx.count("q_prefix_of_stored")
        elif any(q.startswith(s) for s in sk):
            ctx.count("q_extension_of_stored")
    ctx.evaluated()
    ctx.shape((ref.shape(), case.get("prune")), len(model) >= 2)


def shrink(case, monitor):
    return shrink_list(sys.modules[__name__], case, monitor, field="hist")


def run_shard(ctx):
    rnd = ctx.rnd
    mod = sys.modules[__name__]
    n = 500 if ctx.tier == "quick" else 5000
    for i in range(n):
        case = hs.gen_build(rnd, maxkeys=10 if ctx.tier == "quick" else 20)
        case["pseed"] = rnd.randrange(1 << 30)
        if i == 1:
            ctx.sample(case)
        run_case_guarded(mod, case, ctx)
        if ctx.full:
            return
