"""C10 - NodeIterator enumerates contents in key order; next() is the strict successor.

Deciding monitor: keys()/items()/values() are compared as lists with the sorted dict model;
next(k) with the least stored key strictly greater than k for a probe set of query keys (stored
keys, prefixes, extensions, +-1 neighbours, the empty key, random keys); nodes() with the
reference trie's pre-order (prefixes, annotation) and with traverse(prefix).  The same judgements
are made on one long-lived iterator after every operation of generated histories."""
import random
import sys

from trie.exceptions import TraversedPartialPath
from trie.iter import NodeIterator

from vt import gen
from vt.core import Raised, Violation, cut, hx, run_case_guarded, shrink_list
from vt.engines import hexary_history as hh
from vt.engines import hexary_static as hs
from vt.ref.mpt import RefTrie, annot

ID = "C10"
LEVEL = "exploration"
RULE = (
    "case = one trie (built by a short history, prune on/off) x all iterator entry points x a probe "
    "set of query keys for next(); plus generated histories over which ONE long-lived iterator is "
    "judged after every operation (batches, aborts, root_hash reassignment, states revisited); "
    "evaluations = tries + histories; distinct = distinct canonical shapes iterated; "
    "non-trivial = at least 2 stored keys"
)
ASSUMPTIONS = ["for the empty trie nodes() may yield nothing or the single blank root node",
               "reference pre-order from vt/ref/mpt.py"]
FLOORS = {
    "quick": {"next_queries": 30000, "next_none": 1000, "nodes_compared": 10000, "items_compared": 5000,
              "q_prefix_of_stored": 2000, "q_extension_of_stored": 2000, "q_stored": 3000,
              "interleaved_generators": 2000, "long_lived_judgements": 5000, "long_lived_in_batch": 500, "long_lived_root_reassigned": 300},
    "thorough": {"next_queries": 300000, "next_none": 10000, "nodes_compared": 100000,
                 "items_compared": 50000, "q_prefix_of_stored": 20000, "q_extension_of_stored": 20000,
                 "q_stored": 30000, "long_lived_judgements": 50000, "long_lived_in_batch": 5000,
                 "long_lived_root_reassigned": 3000},
}


def neighbours(k):
    out = []
    if k:
        last = k[-1]
        if last < 255:
            out.append(k[:-1] + bytes([last + 1]))
        if last > 0:
            out.append(k[:-1] + bytes([last - 1]))
        out.append(k[:-1])
    out.append(k + b"\x00")
    out.append(k + b"\xff")
    return out


def run_case(case, ctx):
    if case.get("engine") == "hh":
        return run_moving(case, ctx)
    t, db, model, ref = hs.build(case)
    rnd = random.Random(case.get("pseed", 0))
    it = NodeIterator(t)
    judge(it, t, model, ref, rnd, ctx)
    ctx.evaluated()
    ctx.shape((ref.shape(), case.get("prune")), len(model) >= 2)


def judge(it, t, model, ref, rnd, ctx, max_queries=None, where=""):
    """everything the property says about one iterator over one state of one trie"""
    sk = sorted(model)
    items = cut(lambda: list(it.items()))
    if items != [(k, model[k]) for k in sk]:
        raise Violation("iter-items", "items() = %r, sorted contents = %r" % (
            [(hx(a), hx(b)[:8]) for a, b in items], [(hx(k), hx(model[k])[:8]) for k in sk]))
    keys = cut(lambda: list(it.keys()))
    if keys != sk:
        raise Violation("iter-keys", "keys() = %r, sorted keys = %r" % ([hx(k) for k in keys], [hx(k) for k in sk]))
    values = cut(lambda: list(it.values()))
    if values != [model[k] for k in sk]:
        raise Violation("iter-values", "values() not the values in key order")
    ctx.count("items_compared", len(sk))
    # several generators of the SAME iterator alive at once: each is its own walk
    pairs = cut(lambda: list(zip(it.keys(), it.values())))
    if pairs != [(k, model[k]) for k in sk]:
        raise Violation("iter-interleaved", "zip(it.keys(), it.values()) = %d pairs %r..., sorted contents have %d" % (
            len(pairs), [(hx(a), hx(b)[:8]) for a, b in pairs[:3]], len(sk)))
    if sk:
        def paused():
            g = it.keys()
            first_key = next(g)
            inner = list(it.values())          # a complete second walk while the first is paused
            also = it.next(first_key)          # and a successor query
            return [first_key] + list(g), inner, also
        outer, inner, also = cut(paused)
        if outer != sk or inner != [model[k] for k in sk] or also != (sk[1] if len(sk) > 1 else None):
            raise Violation("iter-interleaved", "a keys() walk paused around a values() walk of the same iterator yields %d keys (contents %d), the inner walk %d values" % (
                len(outer), len(sk), len(inner)))
    ctx.count("interleaved_generators")
    # nodes(): pre-order, each equal to traverse(prefix)
    nodes = cut(lambda: list(it.nodes()))
    exp = ref.preorder()
    if not exp:
        if not (nodes == [] or (len(nodes) == 1 and tuple(nodes[0][0]) == () and hs.pub(nodes[0][1]) == annot(None))):
            raise Violation("iter-nodes", "nodes() of the empty trie yields %r" % (nodes,))
    else:
        got_prefixes = [tuple(int(x) for x in p) for p, _ in nodes]
        if got_prefixes != [p for p, _ in exp]:
            raise Violation("iter-nodes-order", "nodes() prefixes %r, canonical pre-order %r" % (got_prefixes, [p for p, _ in exp]))
        for (p, n), (_, e) in zip(nodes, exp):
            if hs.pub(n) != annot(e):
                raise Violation("iter-nodes-annotation", "nodes() gives %r at %r, canonical node is %r" % (hs.pub(n), tuple(p), annot(e)))
            tr = cut(t.traverse, p, expect=(TraversedPartialPath,))
            if isinstance(tr, Raised) or hs.pub(tr) != hs.pub(n):
                raise Violation("iter-nodes-vs-traverse", "node yielded at %r differs from traverse(prefix)" % (tuple(p),))
            ctx.count("nodes_compared")
    # next()
    first = cut(it.next)
    if first != (sk[0] if sk else None):
        raise Violation("iter-next-first", "next() = %r, least key is %r" % (first, sk[0] if sk else None))
    queries = set(gen.probe_keys(rnd, model, extra=4))
    for k in sk:
        queries.update(neighbours(k))
    queries = sorted(queries)
    if max_queries is not None and len(queries) > max_queries:
        queries = sorted(rnd.sample(queries, max_queries) + [b""])
    for q in queries:
        got = cut(it.next, q)
        greater = [k for k in sk if k > q]
        e = greater[0] if greater else None
        if got != e:
            raise Violation("iter-next", "next(%s) = %s, least stored key greater than it is %s (keys %r)" % (
                hx(q), hx(got) if got is not None else None, hx(e) if e is not None else None, [hx(k) for k in sk]))
        ctx.count("next_queries")
        if e is None:
            ctx.count("next_none")
        if q in model:
            ctx.count("q_stored")
        elif any(s.startswith(q) for s in sk):
            ctx.count("q_prefix_of_stored")
        elif any(q.startswith(s) for s in sk):
            ctx.count("q_extension_of_stored")


# --------------------------------------------------------------------- long-lived iterators
class MovingRunner(hh.Runner):
    """ONE NodeIterator created over the still empty trie and kept for the whole generated
    history (plain operations, squash_changes blocks committed or aborted, for non-pruning tries
    also root_hash pointed at an earlier root and back): after every operation it must describe
    the trie's CURRENT contents.  Histories revisit earlier states (set then delete, overwrite
    and overwrite back), so an iterator that remembers anything about a state it saw before is
    exposed.  Inside an open block a second iterator lives on the batch trie."""

    def __init__(self, case, ctx):
        super().__init__(case, ctx)
        self.it = NodeIterator(self.trie)
        self.roots = []
        self.bit = None

    def look(self, it, trie, model, where):
        try:
            judge(it, trie, model, RefTrie(model), self.rnd, self.ctx, max_queries=8)
        except Violation as v:
            raise Violation(v.monitor, where + v.detail)
        self.ctx.count("long_lived_judgements")
        raw = self.db.raw() if trie is self.trie else None
        if raw and self.rnd.random() < 0.25:
            # some node bodies are away for a moment: queries may fail (that is C07's business);
            # once the bodies are back the SAME iterator must answer as before
            from trie.exceptions import MissingTraversalNode, MissingTrieNode

            hide = self.rnd.sample(sorted(raw), max(1, len(raw) // 3))
            self.db.hide(hide)
            try:
                for q in [b""] + sorted(model)[:3]:
                    cut(it.next, q, expect=(MissingTraversalNode, MissingTrieNode))
                cut(lambda: list(it.keys()), expect=(MissingTraversalNode, MissingTrieNode))
            finally:
                for h in hide:
                    self.db.supply(h)
            self.ctx.count("queries_on_incomplete_database")
            try:
                judge(it, trie, model, RefTrie(model), self.rnd, self.ctx, max_queries=6)
            except Violation as v:
                raise Violation(v.monitor, where + "after queries that failed on a temporarily incomplete database: " + v.detail)
        if trie is self.trie and not self.prune and len(self.roots) >= 1 and self.rnd.random() < 0.3:
            # two walks over two VERSIONS of the trie on one database, consumed alternately
            import itertools

            from trie import HexaryTrie as _HT

            old_root, old_model = self.rnd.choice(self.roots)
            a, b = NodeIterator(_HT(self.db if not hasattr(self.db, "d") else self.db.d, old_root)), NodeIterator(trie)
            pa, pb = [], []
            for x, y in cut(lambda: list(itertools.zip_longest(a.items(), b.items()))):
                if x is not None:
                    pa.append(x)
                if y is not None:
                    pb.append(y)
            if pa != sorted(old_model.items()) or pb != sorted(model.items()):
                raise Violation("iter-interleaved", where + "two walks over two versions of the trie, consumed alternately, yield %d and %d pairs (contents %d and %d)" % (
                    len(pa), len(pb), len(old_model), len(model)))
            self.ctx.count("two_version_walks_interleaved")
        if self.rnd.random() < 0.3:
            # the consumer edits, in place, the node bodies it was handed (they are its own):
            # the iterator must not be holding on to them
            for _, n in cut(lambda: list(it.nodes())):
                hs.vandalize(getattr(n, "raw", None))
            self.ctx.count("yielded_nodes_scribbled_on")
            try:
                judge(it, trie, model, RefTrie(model), self.rnd, self.ctx, max_queries=4)
            except Violation as v:
                raise Violation(v.monitor, where + "after the consumer edited the yielded node bodies in place: " + v.detail)

    def after_op(self, op):
        self.bit = None
        self.look(self.it, self.trie, self.model, "long-lived iterator after %s: " % op[0])
        if not self.prune:
            self.roots.append((self.trie.root_hash, dict(self.model)))
            if len(self.roots) > 1 and self.rnd.random() < 0.3:
                old_root, old_model = self.rnd.choice(self.roots[:-1])
                cur = self.trie.root_hash
                self.trie.root_hash = old_root
                self.look(self.it, self.trie, old_model, "long-lived iterator after root_hash was pointed at an earlier root: ")
                self.trie.root_hash = cur
                self.look(self.it, self.trie, self.model, "long-lived iterator after root_hash was pointed back: ")
                self.ctx.count("long_lived_root_reassigned")
        if len(self.model) >= 2:
            self.ctx.shape(("moving", RefTrie(self.model).shape(), self.prune))

    def after_batch_op(self, btrie, bmodel, op):
        if self.bit is None:
            self.bit = NodeIterator(btrie)
        self.look(self.bit, btrie, bmodel, "iterator over the batch trie inside an open block: ")
        self.look(self.it, self.trie, self.model, "long-lived iterator of the outer trie while a block is open: ")
        self.ctx.count("long_lived_in_batch")


def run_moving(case, ctx):
    MovingRunner(case, ctx).run()
    ctx.evaluated()


def shrink(case, monitor):
    field = "ops" if case.get("engine") == "hh" else "hist"
    return shrink_list(sys.modules[__name__], case, monitor, field=field)


def run_shard(ctx):
    rnd = ctx.rnd
    mod = sys.modules[__name__]
    n = 500 if ctx.tier == "quick" else 5000
    for i in range(n):
        bulk = i % 20 == 19
        case = hs.gen_build(rnd, maxkeys=90, bulk=True) if bulk else hs.gen_build(rnd, maxkeys=10 if ctx.tier == "quick" else 20)
        if bulk:
            ctx.count("bulk_tries")
        case["pseed"] = rnd.randrange(1 << 30)
        if i == 1:
            ctx.sample(case)
        run_case_guarded(mod, case, ctx)
        if ctx.full:
            return
    # SCALE: a "fat ladder" - 70 nested levels with all 16 children in use at each (about 1100
    # keys of up to 36 bytes): more than a thousand prefixes are pending at once during a walk
    top = bytes(36) if ctx.shard % 8 == 0 else bytes(rnd.choice([0x00, 0x01, 0x10, rnd.randrange(256)]) for _ in range(36))
    nb = [n for b in top for n in (b >> 4, b & 15)]
    hist = []
    for lvl in range(0, 72):
        for x in range(16):
            if x != nb[lvl]:
                path = nb[:lvl] + [x] + ([0] if (lvl + 1) % 2 else [])
                key = bytes(path[i] * 16 + path[i + 1] for i in range(0, len(path), 2))
                hist.append(["set", key.hex(), bytes([65 + x]).hex() * (1 if lvl % 7 else 35), 0])
    rnd.shuffle(hist)
    fat = {"prune": False, "hist": hist, "pseed": rnd.randrange(1 << 30), "prime": False, "universe": "fat-ladder"}
    if ctx.shard % 4 == 0 or ctx.tier == "thorough":
        run_case_guarded(mod, fat, ctx)
        ctx.count("fat_ladders")
    for i in range(80 if ctx.tier == "quick" else 800):
        case = hh.gen_history(rnd, rnd.randint(2, 16 if ctx.tier == "quick" else 40), batch_p=0.25)
        if i == 0:
            ctx.sample(case)
        run_case_guarded(mod, case, ctx)
        if ctx.full:
            return
