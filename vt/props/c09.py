"""C09 - a fog-guided walk finds everything, even while the trie changes.

Deciding monitor: a driver that implements exactly the walk protocol of the statement (pick any
unexplored prefix through nearest_unknown / nearest_right with any query key; traverse from the
root or from a TrieFrontierCache entry; use simulated_node on TraversedPartialPath; explore())
while scheduled set/delete operations are applied between steps.  Model snapshots S0..Sn are
taken at every mutation; at the end: fog complete, walk finished within a LOGICAL visit bound,
static walks met exactly the contents, every key whose value was the same in every state was met
with that value, every met pair is in some state."""
import random
import sys

from trie import HexaryTrie
from trie.exceptions import (
    FullDirectionalVisibility,
    MissingTraversalNode,
    PerfectVisibility,
    TraversedPartialPath,
)
from trie.fog import HexaryTrieFog, TrieFrontierCache

from vt.core import Raised, Violation, cut, hx, run_case_guarded, shrink_list, unhx
from vt.engines import hexary_history as hh
from vt.engines import hexary_static as hs
from vt.ref.mpt import RefTrie, unnibs

ID = "C09"
LEVEL = "exploration"
RULE = (
    "case = (initial trie, selection strategy, frontier cache on/off, prune on/off, schedule of set/delete "
    "operations keyed by walk step); evaluations = walks; distinct = distinct (initial canonical shape, "
    "strategy, cache, prune, schedule signature); non-trivial = at least 2 keys initially or at least one mutation"
)
ASSUMPTIONS = [
    "stale frontier-cache entries of a pruning trie raise MissingTraversalNode; the driver then drops the entry "
    "and traverses from the root (as the repository's own walk test does)",
    "keys met more than once are counted, not judged",
    "termination is decided on a logical bound of 50 x (total nodes over all states + 1) visits",
]
EXHAUSTIVE = {
    "quick": "for 3 base tries of <= 4 keys: every walk position x a menu of 8 mutations (single mutation), "
             "x 3 selection orders x cache on/off x prune on/off",
    "thorough": "for 6 base tries of <= 4 keys: every position x 8 mutations, singles and ordered pairs, "
                "x 3 selection orders x cache on/off x prune on/off",
}
FLOORS = {
    "quick": {"walks_static": 1000, "walks_mutated": 1500, "visits": 20000, "mutations_applied": 4000,
              "partial_path_steps": 100, "stale_cache_recoveries": 100, "stable_keys_checked": 8000,
              "exhaustive_walks": 400, "walks_interleaved": 1000, "wide_walks": 4,
              "steps_with_over_256_unexplored": 10},
    "thorough": {"walks_static": 8000, "walks_mutated": 12000, "visits": 160000, "mutations_applied": 32000,
                 "partial_path_steps": 800, "stale_cache_recoveries": 800, "stable_keys_checked": 64000,
                 "exhaustive_walks": 20000, "walks_interleaved": 10000},
}


def pick(fog, strategy, rnd, step):
    """any unexplored prefix, through either query, with any query key"""
    if strategy == "left":
        q, mode = (), "right"
    elif strategy == "rightmost":
        q, mode = (15,) * 6, "unknown"
    elif strategy == "pivot":
        q, mode = (1, 0, 1, 1), ("unknown" if step % 2 else "right")
    else:
        q = tuple(rnd.randrange(16) for _ in range(rnd.randint(0, 6)))
        mode = "unknown" if (strategy == "unknown" or (strategy == "mixed" and rnd.random() < 0.5)) else "right"
    if strategy == "wide":
        # breadth first (random query keys), every third pick asks from beyond the last prefix
        q = (15,) * 6 if step % 3 == 0 else tuple(rnd.randrange(16) for _ in range(rnd.randint(0, 4)))
        return cut(fog.nearest_unknown, q, expect=(PerfectVisibility,))
    if mode == "unknown":
        return cut(fog.nearest_unknown, q, expect=(PerfectVisibility,))
    r = cut(fog.nearest_right, q, expect=(PerfectVisibility, FullDirectionalVisibility))
    if isinstance(r, Raised):
        # like a walker that takes PerfectVisibility as "the walk is over" and only then looks
        # at FullDirectionalVisibility ("nothing to the right of my key: look elsewhere")
        if isinstance(r.exc, PerfectVisibility):
            return r
        return cut(fog.nearest_unknown, q, expect=(PerfectVisibility,))
    return r


def run_case(case, ctx):
    if case.get("engine") == "dual":
        return run_dual(case, ctx)
    t, db, model, ref = hs.build(case)
    prune = case.get("prune", False)
    rnd = random.Random(case.get("pseed", 0))
    use_cache = case["cache"]
    strategy = case["strategy"]
    sched = {}
    for at, op in case.get("muts", []):
        sched.setdefault(at, []).append(op)
    states = [dict(model)]
    total_nodes = len(ref.preorder())
    fog = HexaryTrieFog()
    cache = TrieFrontierCache()
    kept = {}
    met = []
    visits = 0
    step = 0
    applied = 0
    while True:
        for op in sched.pop(step, []):
            hh.apply_plain(t, model, op)
            states.append(dict(model))
            total_nodes += len(RefTrie(model).preorder())
            applied += 1
        step += 1
        p = pick(fog, strategy, rnd, step)
        if isinstance(p, Raised):
            if sched:
                # the walk is over before the remaining mutations were due: apply none of them
                pass
            break
        node = None
        via_cache = False
        if use_cache:
            try:
                cached, seg = cache.get(p)
                via_cache = True
            except KeyError:
                via_cache = False
        if via_cache:
            r = cut(t.traverse_from, cached, seg, expect=(TraversedPartialPath, MissingTraversalNode))
            if isinstance(r, Raised) and isinstance(r.exc, MissingTraversalNode):
                if not prune:
                    raise Violation("walk-missing-node", "traverse_from raised MissingTraversalNode on a non-pruning trie: %s" % r.exc)
                cache.delete(p)
                ctx.count("stale_cache_recoveries")
                via_cache = False
            else:
                res = r
        if not via_cache:
            if case.get("root_via") == "kept_root":
                # the walker keeps the root node object and re-reads it only when root_hash changes
                if kept.get("hash") != t.root_hash:
                    kept["hash"], kept["node"] = t.root_hash, cut(lambda: t.root_node)
                res = cut(t.traverse_from, kept["node"], p, expect=(TraversedPartialPath,))
                ctx.count("root_via_kept_root_node")
            elif case.get("root_via") == "traverse_from":
                # "from the root" spelled as traverse_from(root_node, prefix)
                res = cut(lambda: t.traverse_from(t.root_node, p), expect=(TraversedPartialPath,))
                ctx.count("root_via_traverse_from")
            else:
                res = cut(t.traverse, p, expect=(TraversedPartialPath,))
        if isinstance(res, Raised):
            node = res.exc.simulated_node
            ctx.count("partial_path_steps")
            if res.exc.node.node_type.name == "EXTENSION":
                ctx.count("partial_path_steps_in_extension")
        else:
            node = res
        if node.value:
            full = tuple(int(x) for x in p) + tuple(int(x) for x in node.suffix)
            if not isinstance(node.value, (bytes, bytearray)):
                raise Violation("walk-met-never-stored", "the node met at %r carries a value that is not a byte string: %r" % (full, node.value))
            if len(full) % 2:
                raise Violation("walk-met-never-stored", "met a value at the odd-length nibble path %r" % (full,))
            met.append((unnibs(full), bytes(node.value)))
        fog = cut(fog.explore, p, node.sub_segments)
        if use_cache:
            if node.sub_segments:
                cache.add(p, node, node.sub_segments)
            else:
                cache.delete(p)
        visits += 1
        if strategy == "wide" and visits % 16 == 0:
            pending = fog.serialize().count(b"b'") + fog.serialize().count(b'b"')
            if pending > 256:
                ctx.count("steps_with_over_256_unexplored")
        if visits > 50 * (total_nodes + 1):
            raise Violation("walk-not-terminating", "walk still running after %d visits; all states together have %d nodes" % (visits, total_nodes))
    if not fog.is_complete:
        raise Violation("walk-fog-incomplete", "PerfectVisibility raised but fog.is_complete is false")
    metd = {}
    for k, v in met:
        metd.setdefault(k, set()).add(v)
    for k, v in met:
        if not any(s.get(k) == v for s in states):
            raise Violation("walk-met-never-stored", "walk met (%s, %s...) which is in none of the %d states" % (hx(k), hx(v)[:16], len(states)))
    stable = {k: v for k, v in states[0].items() if all(s.get(k) == v for s in states)}
    for k, v in stable.items():
        if v not in metd.get(k, ()):
            raise Violation("walk-missed-stable-key", "key %s kept the same value through all %d states but the walk never met it (%d mutations applied)" % (hx(k), len(states), applied))
        ctx.count("stable_keys_checked")
    if len(states) == 1:
        if sorted(met) != sorted(model.items()):
            raise Violation("walk-static-inexact", "static walk met %d pairs, trie holds %d (met %r)" % (len(met), len(model), sorted(hx(k) for k, _ in met)))
        ctx.count("walks_static")
    else:
        ctx.count("walks_mutated")
    ctx.count("visits", visits)
    ctx.count("mutations_applied", applied)
    ctx.evaluated()
    sig = (ref.shape(), strategy, use_cache, prune, tuple((at, op[0], op[1]) for at, op in case.get("muts", [])))
    ctx.shape(sig, len(states[0]) >= 2 or applied > 0)


class Walk:
    """one static walk as an object that can be stepped (for interleaving several walks)"""

    def __init__(self, trie, model, strategy, use_cache, rnd, ctx, name):
        self.t, self.model, self.strategy, self.use_cache, self.rnd, self.ctx, self.name = (
            trie, model, strategy, use_cache, rnd, ctx, name)
        self.fog = HexaryTrieFog()
        self.cache = TrieFrontierCache()
        self.met = []
        self.visits = 0
        self.nsteps = 0
        self.bound = 50 * (len(RefTrie(model).preorder()) + 1)
        self.done = False

    def step(self):
        self.nsteps += 1
        p = pick(self.fog, self.strategy, self.rnd, self.nsteps)
        if isinstance(p, Raised):
            self.done = True
            return
        via_cache = False
        if self.use_cache:
            try:
                cached, seg = self.cache.get(p)
                via_cache = True
            except KeyError:
                pass
        if via_cache:
            res = cut(self.t.traverse_from, cached, seg, expect=(TraversedPartialPath,))
        else:
            res = cut(self.t.traverse, p, expect=(TraversedPartialPath,))
        node = res.exc.simulated_node if isinstance(res, Raised) else res
        if node.value:
            full = tuple(int(x) for x in p) + tuple(int(x) for x in node.suffix)
            if not isinstance(node.value, (bytes, bytearray)):
                raise Violation("walk-met-never-stored", "%s: the node met at %r carries a value that is not a byte string" % (self.name, full))
            if len(full) % 2:
                raise Violation("walk-met-never-stored", "%s met a value at the odd-length nibble path %r" % (self.name, full))
            self.met.append((unnibs(full), bytes(node.value)))
        self.fog = cut(self.fog.explore, p, node.sub_segments)
        if self.use_cache:
            if node.sub_segments:
                self.cache.add(p, node, node.sub_segments)
            else:
                self.cache.delete(p)
        self.visits += 1
        if self.visits > self.bound:
            raise Violation("walk-not-terminating", "%s still running after %d visits" % (self.name, self.visits))

    def finish(self):
        if not self.fog.is_complete:
            raise Violation("walk-fog-incomplete", "%s: PerfectVisibility raised but fog.is_complete is false" % self.name)
        if sorted(self.met) != sorted(self.model.items()):
            never = [k for k, v in self.met if self.model.get(k) != v]
            missed = [k for k in self.model if k not in dict(self.met)]
            raise Violation("walk-static-inexact" if not never else "walk-met-never-stored",
                            "%s (interleaved with another walk over another trie) met %d pairs, its trie holds %d: %d never stored there, %d missed" % (
                                self.name, len(self.met), len(self.model), len(never), len(missed)))


def run_dual(case, ctx):
    """Two walks alive at once: two tries with different contents over the SAME key universe (one
    shared database), each walk with its own fog and its own TrieFrontierCache, steps interleaved
    by a seeded scheduler.  Each walk must meet exactly its own trie's contents."""
    rnd = random.Random(case.get("pseed", 0))
    from vt.monitor.db import RecordingDB

    db = RecordingDB()
    db.record = False
    tries, models = [], []
    for hist in (case["hist"], case["hist_b"]):
        t = HexaryTrie(db)
        m = {}
        for op in hist:
            hh.apply_plain(t, m, op)
        tries.append(t)
        models.append(m)
    walks = [Walk(tries[i], models[i], case["strategy"], case["cache"], random.Random(rnd.random()), ctx, "walk %d" % i)
             for i in (0, 1)]
    while not all(w.done for w in walks):
        live = [w for w in walks if not w.done]
        w = rnd.choice(live)
        for _ in range(rnd.randint(1, 3)):
            if not w.done:
                w.step()
    for w in walks:
        w.finish()
        ctx.count("visits", w.visits)
    ctx.count("walks_interleaved", 2)
    ctx.evaluated()
    ctx.shape(("dual", RefTrie(models[0]).shape(), RefTrie(models[1]).shape(), case["strategy"], case["cache"]),
              len(models[0]) >= 2 and len(models[1]) >= 2)


def shrink(case, monitor):
    mod = sys.modules[__name__]
    if case.get("engine") == "dual":
        c = shrink_list(mod, case, monitor, field="hist_b")
        return shrink_list(mod, c, monitor, field="hist")
    c = shrink_list(mod, case, monitor, field="muts")
    return shrink_list(mod, c, monitor, field="hist")


STRATEGIES = ["unknown", "right", "mixed", "left", "rightmost", "pivot"]


def gen_case(rnd, tier):
    if rnd.random() < 0.04:
        case = hs.gen_build(rnd, maxkeys=70, bulk=True)
    else:
        case = hs.gen_build(rnd, maxkeys=10 if tier == "quick" else 18,
                            kind=rnd.choice(["adv", "adv", "fix3", "chain", "nibbly", "k32", "adv", "fix3", "chain", "nibbly", "k32", "k40",
                                             "adv", "adv", "fix3", "chain", "nibbly", "k32", "adv", "fix3", "chain", "nibbly", "k32", "k40", "k200", "k600"]))
    case["pseed"] = rnd.randrange(1 << 30)
    case["cache"] = bool(rnd.randrange(2))
    case["root_via"] = rnd.choice(["traverse", "traverse", "traverse_from", "kept_root"])
    case["strategy"] = rnd.choice(STRATEGIES)
    pmut = rnd.choice([0, 0.1, 0.3, 0.6])
    muts = []
    if pmut:
        from vt import gen
        keys = set()
        for op in case["hist"]:
            hh._track(op, keys)
        universe = gen.KeyUniverse(rnd, case["universe"] if case["universe"] not in ("k32", "k40", "k200", "k600") else "adv")
        pool = gen.value_pool(rnd)
        for at in range(0, 60):
            if rnd.random() < pmut and len(muts) < 30:
                if keys and rnd.random() < 0.5:
                    k = rnd.choice(sorted(keys))
                else:
                    k = universe.key()
                if rnd.random() < 0.5:
                    op = ["set", k.hex(), rnd.choice(pool).hex(), 0]
                else:
                    op = ["del", k.hex(), 0]
                hh._track(op, keys)
                muts.append([at, op])
    case["muts"] = muts
    return case


BASES = [
    [(b"\x10\x11", b"a"), (b"\x10\x12", b"B" * 40), (b"\x20\x11", b"c")],
    [(b"\x12\x34\x56", b"A" * 40), (b"\x12\x34\x57", b"B" * 40), (b"\x12", b"x"), (b"\x99", b"y")],
    [(b"", b"r"), (b"\x01", b"s"), (b"\x01\x02\x03", b"T" * 33), (b"\x01\x02\x04", b"u")],
    [(b"\xaa\xbb", b"V" * 32)],
    [(b"\x10", b"a"), (b"\x11", b"b"), (b"\x12", b"c"), (b"\x13", b"D" * 50)],
    [(b"\x12\x34\x56\x78", b"E" * 40), (b"\x12\x34\x56\x79", b"F" * 40)],
]


def menu(base):
    """8 mutations relative to a base content"""
    k1 = base[0][0]
    k2 = base[-1][0]
    return [
        ["del", k1.hex(), 0],                                   # may collapse a branch
        ["del", k2.hex(), 0],
        ["set", (k1 + b"\x77").hex(), b"n1".hex(), 0],          # extends a stored key (leaf -> branch)
        ["set", (k1[:-1] + bytes([(k1[-1] if k1 else 0) ^ 0x01])).hex(), ("N" * 40).encode().hex(), 0],  # diverges in last nibble
        ["set", k1[:1].hex(), b"n3".hex(), 0],                  # prefix of a stored key
        ["set", k1.hex(), b"changed".hex(), 0],                 # value change, small
        ["set", k2.hex(), (b"Z" * 45).hex(), 0],                # value change, embedded -> hashed
        ["set", b"\xf0\x0d".hex(), b"fresh".hex(), 0],          # unrelated fresh key
    ]


def small_scope(ctx):
    nb = 3 if ctx.tier == "quick" else 6
    idx = 0
    for base in BASES[:nb]:
        hist = [["set", k.hex(), v.hex(), 0] for k, v in base]
        ms = menu(base)
        maxpos = 2 * len(RefTrie(dict(base)).preorder()) + 1
        singles = [[(at, m)] for at in range(maxpos) for m in ms]
        combos = list(singles)
        if ctx.tier == "thorough":
            for a in range(maxpos):
                for b in range(a, maxpos):
                    for m1 in ms:
                        for m2 in ms:
                            combos.append([(a, m1), (b, m2)])
        for muts in combos:
            for strategy in ("left", "rightmost", "unknown"):
                for cache in (False, True):
                    for prune in (False, True):
                        if idx % ctx.nshards == ctx.shard:
                            yield {"prune": prune, "hist": hist, "pseed": idx, "cache": cache,
                                   "strategy": strategy, "muts": [[at, m] for at, m in muts],
                                   "root_via": ["traverse_from", "traverse", "kept_root", "traverse"][(idx // ctx.nshards) % 4]}
                        idx += 1


def run_shard(ctx):
    rnd = ctx.rnd
    mod = sys.modules[__name__]
    n = 1500 if ctx.tier == "quick" else 12000
    for i in range(n):
        case = gen_case(rnd, ctx.tier)
        if i == 1 or (i < 30 and case["muts"] and len(ctx.samples) < 2):
            ctx.sample(case)
        run_case_guarded(mod, case, ctx)
        if ctx.full:
            return
    # SCALE: a trie of about a thousand dense two-byte keys walked breadth first: well over 256 prefixes
    # are unexplored at the same time
    for _ in range(1 if ctx.tier == "quick" else 4):
        keys = {bytes([rnd.randrange(256), rnd.randrange(256)]) for _ in range(rnd.randint(900, 1300))}
        wide = {"prune": False, "hist": [["set", k.hex(), bytes([k[0] | 1]).hex(), 0] for k in sorted(keys)],
                "pseed": rnd.randrange(1 << 30), "cache": bool(rnd.randrange(2)), "strategy": "wide",
                "root_via": "traverse", "muts": [], "prime": False, "universe": "wide"}
        run_case_guarded(mod, wide, ctx)
        ctx.count("wide_walks")
    for i in range(150 if ctx.tier == "quick" else 1500):
        kind = rnd.choice(["adv", "adv", "fix3", "chain", "nibbly"])
        a = hs.gen_build(rnd, maxkeys=8, kind=kind, prune=False)
        b = hs.gen_build(rnd, maxkeys=8, kind=kind, prune=False)
        # the second trie shares keys (other values) with the first
        extra = [["set", op[1], (b"zz" * rnd.choice([1, 20])).hex(), 0] for op in a["hist"] if op[0] == "set" and rnd.random() < 0.5]
        case = {"engine": "dual", "hist": a["hist"], "hist_b": b["hist"] + extra, "pseed": rnd.randrange(1 << 30),
                "cache": rnd.random() < 0.8, "strategy": rnd.choice(STRATEGIES)}
        if i == 0:
            ctx.sample(case)
        run_case_guarded(mod, case, ctx)
        if ctx.full:
            return
    for case in small_scope(ctx):
        run_case_guarded(mod, case, ctx)
        ctx.count("exhaustive_walks")
        if ctx.full:
            return
