"""C18 - invalid arguments are rejected up front and change nothing.

Deciding monitor: the matrix (public entry point) x (kind of ill-typed / ill-sized argument) is
fired at scheduled positions of generated histories on the real object, while a lock-step TWIN
object runs the same history without the bad calls.  Each bad call must be refused with the
prescribed exception class and leave root / database / reference counts / proof state as they
were; afterwards every result (root after every operation, lookups, final database) must equal
the twin's."""
import random
import sys

from trie import BinaryTrie, HexaryTrie
from trie.branches import (
    check_if_branch_exist,
    get_branch,
    get_witness_for_key_prefix,
    if_branch_valid,
)
from trie.exceptions import NodeOverrideError, ValidationError
from trie.fog import HexaryTrieFog
from trie.smt import SparseMerkleProof, SparseMerkleTree, calc_root
from trie.typing import Nibble, Nibbles

from vt import gen
from vt.core import Raised, Violation, cut, hx, run_case_guarded, shrink_list, unhx
from vt.engines import binary as be
from vt.engines import hexary_history as hh
from vt.monitor.db import RecordingDB

ID = "C18"
LEVEL = "exploration"
RULE = (
    "case = (object family, generated history, schedule of bad calls: entry point x bad-argument kind x "
    "position); the whole matrix is covered by rotating through it; evaluations = bad calls judged; "
    "distinct = distinct (family, entry point, bad kind, configuration) judged; non-trivial = every bad "
    "call (each must be refused and leave no trace)"
)
ASSUMPTIONS = [
    "wrong-length checks only where the API prescribes a length (SMT keys, branches, from_db root); "
    "HexaryTrie/BinaryTrie accept a root of any length by design; the empty BinaryTrie key is not ill-sized",
    "for malformed nibble sequences either TypeError or ValueError is accepted (the statement names both)",
]
FLOORS = {"quick": {k: 1 for k in [
    "bad_calls", "fam_hexary", "fam_hexary_batch", "fam_binary", "fam_smt", "fam_fog", "fam_static",
    "twin_steps_compared", "matrix_cells"]}}
FLOORS["thorough"] = dict(FLOORS["quick"])

BAD = {
    "none": lambda: None, "str": lambda: "ab", "int": lambda: 7, "float": lambda: 1.5,
    "bytearray": lambda: bytearray(b"ab"), "memoryview": lambda: memoryview(b"ab"),
    "list": lambda: [1, 2], "tuple": lambda: (1,), "tuple2": lambda: (1, 2), "tuple0": lambda: (),
}
BAD_KINDS = sorted(BAD)

# ------------------------------------------------------------------------------ hexary
HEX_ENTRIES = {
    "get": lambda t, b, k: t.get(b),
    "getitem": lambda t, b, k: t[b],
    "exists": lambda t, b, k: t.exists(b),
    "contains": lambda t, b, k: b in t,
    "set_key": lambda t, b, k: t.set(b, b"v"),
    "set_value": lambda t, b, k: t.set(k, b),
    # a non-bytes value with exactly the content that is already stored under the key
    "set_value_same_content_bytearray": lambda t, b, k: t.set(k, bytearray(t.get(k))),
    "set_value_same_content_memoryview": lambda t, b, k: t.__setitem__(k, memoryview(t.get(k))),
    "setitem_key": lambda t, b, k: t.__setitem__(b, b"v"),
    "setitem_value": lambda t, b, k: t.__setitem__(k, b),
    "delete": lambda t, b, k: t.delete(b),
    "delitem": lambda t, b, k: t.__delitem__(b),
    "get_proof": lambda t, b, k: t.get_proof(b),
    "ctor_root": lambda t, b, k: type(t)(t.db, b, prune=t.is_pruning),
    "get_from_proof_root": lambda t, b, k: HexaryTrie.get_from_proof(b, k, t.get_proof(k)),
    "get_from_proof_key": lambda t, b, k: HexaryTrie.get_from_proof(t.root_hash, b, t.get_proof(k)),
    "at_root": lambda t, b, k: t.at_root(b).__enter__(),
}
HEX_NAMES = sorted(HEX_ENTRIES)


def hex_snap(t, db):
    return (t.root_hash, db.snapshot(), hh.nz(dict(t.ref_count)) if t.is_pruning else None)


def fire_hexary(t, db, entry, kind, key, ctx, where=""):
    bad = BAD[kind]()
    before = hex_snap(t, db)
    exp = ValidationError
    r = cut(HEX_ENTRIES[entry], t, bad, key, expect=(Exception,))
    judge(r, exp, "HexaryTrie.%s(%s)%s" % (entry, kind, where))
    if hex_snap(t, db) != before:
        raise Violation("badarg-changed-state", "HexaryTrie.%s with a %s argument was refused but changed root / database / reference counts" % (entry, kind))
    ctx.count("bad_calls")
    ctx.evaluated()
    ctx.shape(("hexary", entry, kind, t.is_pruning, where))


def judge(r, exp, what):
    if not isinstance(r, Raised):
        raise Violation("badarg-accepted", "%s was accepted (returned %r)" % (what, r))
    if not isinstance(r.exc, exp):
        raise Violation("badarg-wrong-exception", "%s raised %s: %s, expected %s" % (
            what, type(r.exc).__name__, str(r.exc)[:120], getattr(exp, "__name__", exp)))


def run_hexary(case, ctx):
    prune = case["prune"]
    rnd = random.Random(case.get("pseed", 0))
    db = RecordingDB()
    db.record = False
    t = HexaryTrie(db, prune=prune)
    twin_db = {}
    twin = HexaryTrie(twin_db, prune=prune)
    model = {}
    sched = {}
    for pos, entry, kind in case["bad"]:
        sched.setdefault(pos, []).append((entry, kind))
    in_batch = case.get("in_batch", False)
    ctx.count("fam_hexary_batch" if in_batch else "fam_hexary")

    def compare(main, tw, where):
        if main.root_hash != tw.root_hash:
            raise Violation("badarg-later-result-differs", "%sroot differs from the twin that never received the bad calls" % where)
        for k in list(model)[:6] + [b"", b"\x01"]:
            if cut(main.get, k) != tw.get(k):
                raise Violation("badarg-later-result-differs", "%sget(%s) differs from the twin" % (where, hx(k)))
        ctx.count("twin_steps_compared")

    def body(main, tw, main_db):
        for i, op in enumerate(case["hist"] + [None]):
            for entry, kind in sched.get(i, []):
                if entry == "at_root" and prune and not in_batch:
                    continue
                key = rnd.choice(sorted(model)) if model else b"k"
                if in_batch:
                    bad = BAD[kind]()
                    r = cut(HEX_ENTRIES[entry], main, bad, key, expect=(Exception,))
                    # at_root on the (pruning) batch trie is refused as well, also with ValidationError
                    judge(r, ValidationError, "batch trie %s(%s)" % (entry, kind))
                    ctx.count("bad_calls")
                    ctx.evaluated()
                    ctx.shape(("hexary-batch", entry, kind, prune))
                else:
                    fire_hexary(main, main_db, entry, kind, key, ctx)
            if op is None:
                break
            hh.apply_plain(main, model, op)
            k = unhx(op[1])
            if op[0] == "set":
                tw.set(k, be.resolve_value(tw, op[2]) if op[2].startswith("@") else unhx(op[2]))
            else:
                tw.delete(k)
            compare(main, tw, "after op %d: " % i)

    if in_batch:
        def both():
            with t.squash_changes() as b:
                with twin.squash_changes() as tb:
                    body(b, tb, None)
        cut(both)
    else:
        body(t, twin, db)
    compare(t, twin, "at the end: ")
    if db.raw() != twin_db:
        raise Violation("badarg-later-result-differs", "final database differs from the twin that never received the bad calls")
    if prune and hh.nz(dict(t.ref_count)) != hh.nz(dict(twin.ref_count)):
        raise Violation("badarg-later-result-differs", "final reference counts differ from the twin")


# ------------------------------------------------------------------------------ binary
BIN_ENTRIES = {
    "get": lambda t, b, k: t.get(b),
    "getitem": lambda t, b, k: t[b],
    "exists": lambda t, b, k: t.exists(b),
    "contains": lambda t, b, k: b in t,
    "set_key": lambda t, b, k: t.set(b, b"v"),
    "set_value": lambda t, b, k: t.set(k, b),
    "set_value_same_content_bytearray": lambda t, b, k: t.set(k, bytearray(t.get(k))),
    "set_value_same_content_memoryview": lambda t, b, k: t.__setitem__(k, memoryview(t.get(k))),
    "setitem_key": lambda t, b, k: t.__setitem__(b, b"v"),
    "delete": lambda t, b, k: t.delete(b),
    "delitem": lambda t, b, k: t.__delitem__(b),
    "delete_subtrie": lambda t, b, k: t.delete_subtrie(b),
    "ctor_root": lambda t, b, k: BinaryTrie(t.db, b),
    "check_if_branch_exist": lambda t, b, k: check_if_branch_exist(t.db, t.root_hash, b),
    "get_branch": lambda t, b, k: get_branch(t.db, t.root_hash, b),
    "get_witness": lambda t, b, k: get_witness_for_key_prefix(t.db, t.root_hash, b),
    "if_branch_valid_key": lambda t, b, k: if_branch_valid(get_branch(t.db, t.root_hash, k), t.root_hash, b, t.get(k)),
    # the same helper asked to confirm an ABSENCE (value None): the key is still checked
    "if_branch_valid_key_absence": lambda t, b, k: if_branch_valid(get_branch(t.db, t.root_hash, k), t.root_hash, b, None),
}
BIN_NAMES = sorted(BIN_ENTRIES)


def run_binary(case, ctx):
    rnd = random.Random(case.get("pseed", 0))
    t, db = be.new_trie()
    tw = BinaryTrie({})
    model = {}
    sched = {}
    for pos, entry, kind in case["bad"]:
        sched.setdefault(pos, []).append((entry, kind))
    ctx.count("fam_binary")
    for i, op in enumerate(case["ops"] + [None]):
        for entry, kind in sched.get(i, []):
            if not model:
                continue  # the branch helpers need a stored key to be meaningful
            key = rnd.choice(sorted(model))
            before = (t.root_hash, db.snapshot())
            r = cut(BIN_ENTRIES[entry], t, BAD[kind](), key, expect=(Exception,))
            judge(r, ValidationError, "BinaryTrie/%s(%s)" % (entry, kind))
            if (t.root_hash, db.snapshot()) != before:
                raise Violation("badarg-changed-state", "binary %s with a %s argument was refused but changed root / database" % (entry, kind))
            ctx.count("bad_calls")
            ctx.evaluated()
            ctx.shape(("binary", entry, kind))
        if op is None:
            break
        be.apply(t, model, op)
        try:
            k = unhx(op[1])
            if op[0] == "set":
                tw.set(k, be.resolve_value(tw, op[2]) if op[2].startswith("@") else unhx(op[2]))
            elif op[0] in ("del", "sete"):
                tw.delete(k)
            else:
                tw.delete_subtrie(k)
        except NodeOverrideError:
            pass
        if t.root_hash != tw.root_hash:
            raise Violation("badarg-later-result-differs", "binary trie root differs from the twin after op %d" % i)
        ctx.count("twin_steps_compared")
    if db.raw() != tw.db:
        raise Violation("badarg-later-result-differs", "binary trie database differs from the twin at the end")


# --------------------------------------------------------------------------------- smt
def smt_entries(ks):
    return {
        "get": lambda s, p, b, k, br: s.get(b),
        "getitem": lambda s, p, b, k, br: s[b],
        "exists": lambda s, p, b, k, br: s.exists(b),
        "contains": lambda s, p, b, k, br: b in s,
        "branch": lambda s, p, b, k, br: s.branch(b),
        "set_key": lambda s, p, b, k, br: s.set(b, b"v"),
        "setitem_key": lambda s, p, b, k, br: s.__setitem__(b, b"v"),
        "set_value": lambda s, p, b, k, br: s.set(k, b),
        "delete": lambda s, p, b, k, br: s.delete(b),
        "delitem": lambda s, p, b, k, br: s.__delitem__(b),
        "calc_root_key": lambda s, p, b, k, br: calc_root(b, b"v", br),
        "calc_root_value": lambda s, p, b, k, br: calc_root(k, b, br),
        "proof_ctor_key": lambda s, p, b, k, br: SparseMerkleProof(b, b"v", br),
        "proof_ctor_value": lambda s, p, b, k, br: SparseMerkleProof(k, b, br),
        "proof_update_key": lambda s, p, b, k, br: p.update(b, b"v", br),
        "from_db_root": lambda s, p, b, k, br: SparseMerkleTree.from_db(s.db, b, key_size=ks),
    }


SMT_VALUE_ENTRIES = {"set_value", "calc_root_value", "proof_ctor_value"}
SMT_NAMES = sorted(smt_entries(1))


def run_smt(case, ctx):
    ks = case["ks"]
    rnd = random.Random(case.get("pseed", 0))
    default = unhx(case.get("default", ""))
    s = SparseMerkleTree(key_size=ks, default=default)
    tw = SparseMerkleTree(key_size=ks, default=default)
    tracked = bytes(rnd.randrange(256) for _ in range(ks))
    s.set(tracked, b"t0")
    tw.set(tracked, b"t0")
    p = SparseMerkleProof(tracked, b"t0", s.branch(tracked))
    ptw = SparseMerkleProof(tracked, b"t0", tw.branch(tracked))
    entries = smt_entries(ks)
    sched = {}
    for pos, entry, kind in case["bad"]:
        sched.setdefault(pos, []).append((entry, kind))
    ctx.count("fam_smt")
    for i, op in enumerate(case["ops"] + [None]):
        for entry, kind in sched.get(i, []):
            br = s.branch(tracked)
            if kind in BAD:
                bad = BAD[kind]()
            elif kind == "short":
                bad = tracked[:-1]
            elif kind == "long":
                bad = tracked + b"\x00"
            elif kind == "empty":
                bad = b""
            elif kind in ("branch_short", "branch_long", "branch_empty"):
                bad = None
            else:
                raise ValueError(kind)
            before = (s.root_hash, dict(s.db), p.value, p.branch)
            if kind.startswith("branch_"):
                wrong = {"branch_short": br[:-1], "branch_long": br + (br[0],), "branch_empty": ()}[kind]
                if entry.startswith("calc_root"):
                    r = cut(calc_root, tracked, b"v", wrong, expect=(Exception,))
                else:
                    r = cut(SparseMerkleProof, tracked, b"v", wrong, expect=(Exception,))
            elif kind in ("short", "long", "empty") and entry == "from_db_root":
                bad32 = {"short": b"\x01" * 31, "long": b"\x01" * 33, "empty": b""}[kind]
                r = cut(entries[entry], s, p, bad32, tracked, br, expect=(Exception,))
            else:
                r = cut(entries[entry], s, p, bad, tracked, br, expect=(Exception,))
            judge(r, ValidationError, "SMT/%s(%s)" % (entry, kind))
            if (s.root_hash, dict(s.db), p.value, p.branch) != before:
                raise Violation("badarg-changed-state", "SMT %s with a %s argument was refused but changed tree / proof state" % (entry, kind))
            ctx.count("bad_calls")
            ctx.evaluated()
            ctx.shape(("smt", entry, kind, ks))
        if op is None:
            break
        kb = unhx(op[1])
        if kb == tracked and op[0] != "set":
            continue  # keep the tracked key readable (branch() of a blank key raises KeyError)
        if op[0] == "set":
            v = unhx(op[2])
            u1, u2 = cut(s.set, kb, v), tw.set(kb, v)
        else:
            v = default
            u1, u2 = cut(s.delete, kb), tw.delete(kb)
        cut(p.update, kb, v, u1)
        ptw.update(kb, v, u2)
        if s.root_hash != tw.root_hash or tuple(u1) != tuple(u2) or (p.value, p.branch) != (ptw.value, ptw.branch):
            raise Violation("badarg-later-result-differs", "SMT / proof state differs from the twin after op %d" % i)
        ctx.count("twin_steps_compared")
    if s.db != tw.db:
        raise Violation("badarg-later-result-differs", "SMT database differs from the twin at the end")


# ----------------------------------------------------------------- fog, nibbles, ctors
MALFORMED_NIBBLES = [None, 0, 15, "F", b"\x01", (0, 16), (-1,), ("a",), (1.5,), [3, None], (0, 1, 2, 99),
                     # sequences that START with already-validated Nibble members (what slicing or
                     # concatenating a Nibbles yields) and go wrong later
                     (Nibble(1), 16), tuple(Nibbles((1, 2))) + (-1,), [Nibble(0xF), "a"],
                     (Nibble(0), Nibble(1), 99), tuple(Nibbles((1, 2, 3))[:2]) + (None,),
                     (Nibble(1), Nibble(2), 2.5)]


def run_static(case, ctx):
    """argument checks that need no history"""
    ctx.count("fam_static")
    what = case["what"]
    if what == "key_size":
        good = SparseMerkleTree(key_size=2)
        good.set(b"\x01\x02", b"v")
        for ks in (0, 33, -1, 100, 64, 256):
            r = cut(SparseMerkleTree, key_size=ks, expect=(Exception,))
            judge(r, ValidationError, "SparseMerkleTree(key_size=%d)" % ks)
            # the alternative constructor, with an otherwise valid database and 32-byte root
            before = dict(good.db)
            r = cut(SparseMerkleTree.from_db, good.db, good.root_hash, key_size=ks, expect=(Exception,))
            judge(r, ValidationError, "SparseMerkleTree.from_db(db, root, key_size=%d)" % ks)
            if good.db != before:
                raise Violation("badarg-changed-state", "refused from_db(key_size=%d) changed the database handed in" % ks)
            ctx.count("bad_calls", 2)
            ctx.evaluated(2)
            ctx.shape(("static", "key_size", ks))
    elif what == "ref_count_nonpruning":
        for flag in (False, 0, None, "", 0.0):
            # every falsy prune flag makes a non-pruning trie: a reference count is refused
            r = cut(HexaryTrie, {}, prune=flag, ref_count={}, expect=(Exception,))
            judge(r, ValueError, "HexaryTrie(prune=%r, ref_count={})" % (flag,))
            ctx.count("bad_calls")
            ctx.evaluated()
        ctx.shape(("static", "ref_count"))
    elif what == "snapshot_pruning":
        db = {}
        t = HexaryTrie(db, prune=True)
        t.set(b"k", b"v" * 40)
        nz = lambda d: {k: v for k, v in dict(d).items() if v}
        before = (t.root_hash, dict(db), nz(t.ref_count))
        # whatever root is asked for - the current one, the blank root, an unknown hash, or
        # something that is not even a byte string - a pruning trie gives no snapshot
        for arg in (t.root_hash, HexaryTrie.BLANK_NODE_HASH, b"\x11" * 32, bytearray(32), [1, 2], None, "x"):
            r = cut(lambda: t.at_root(arg).__enter__(), expect=(Exception,))
            judge(r, ValidationError, "at_root(%r) on a pruning trie" % (arg,))
            if (t.root_hash, dict(db), nz(t.ref_count)) != before:
                raise Violation("badarg-changed-state", "refused at_root on a pruning trie changed its state")
            ctx.count("bad_calls")
            ctx.evaluated()
        ctx.shape(("static", "snapshot_pruning"))
    elif what == "nibbles":
        for tail in [(16,), (-1,), ("a",), (3, 99), (None,)]:
            r = cut(lambda: Nibbles((1, 2)) + tail, expect=(Exception,))
            judge(r, (TypeError, ValueError), "Nibbles((1, 2)) + %r" % (tail,))
            ctx.count("bad_calls")
            ctx.evaluated()
        for bad in MALFORMED_NIBBLES:
            r = cut(Nibbles, bad, expect=(Exception,))
            judge(r, (TypeError, ValueError), "Nibbles(%r)" % (bad,))
            t = HexaryTrie({})
            t.set(b"\x12", b"v")
            before = t.root_hash
            r = cut(t.traverse, bad, expect=(Exception,))
            judge(r, (TypeError, ValueError), "traverse(%r)" % (bad,))
            r = cut(t.traverse_from, t.root_node, bad, expect=(Exception,))
            judge(r, (TypeError, ValueError), "traverse_from(root, %r)" % (bad,))
            if t.root_hash != before:
                raise Violation("badarg-changed-state", "refused traverse changed the root")
            ctx.count("bad_calls", 3)
            ctx.evaluated(3)
            ctx.shape(("static", "nibbles", repr(bad)))
    else:
        raise ValueError(what)


def run_fog(case, ctx):
    ctx.count("fam_fog")
    rnd = random.Random(case.get("pseed", 0))
    fog = HexaryTrieFog()
    twin = HexaryTrieFog()
    for step, (p_idx, segs) in enumerate(case["steps"]):
        members = sorted(tuple(int(x) for x in m) for m in fog._unexplored_prefixes) if hasattr(fog, "_unexplored_prefixes") else None
        for bad_i in case["bad"].get(str(step), []):
            bad = MALFORMED_NIBBLES[bad_i % len(MALFORMED_NIBBLES)]
            ser = fog.serialize()
            for name, call in (("explore_prefix", lambda: fog.explore(bad, ())),
                               ("explore_segment", lambda: fog.explore(fog.nearest_unknown(()), [bad])),
                               ("mark_all_complete", lambda: fog.mark_all_complete([bad])),
                               ("nearest_unknown", lambda: fog.nearest_unknown(bad)),
                               ("nearest_right", lambda: fog.nearest_right(bad))):
                if fog.is_complete and name == "explore_segment":
                    continue
                r = cut(call, expect=(Exception,))
                judge(r, (TypeError, ValueError), "HexaryTrieFog.%s(%r)" % (name, bad))
                if fog.serialize() != ser:
                    raise Violation("badarg-changed-state", "refused HexaryTrieFog.%s changed the fog" % name)
                ctx.count("bad_calls")
                ctx.evaluated()
                ctx.shape(("fog", name, repr(bad)))
        if fog.is_complete:
            break
        # the same valid step on both
        pub = []
        key = ()
        p = fog.nearest_unknown(tuple(rnd.randrange(16) for _ in range(2)))
        fog = cut(fog.explore, p, [tuple(s) for s in segs])
        twin = twin.explore(p, [tuple(s) for s in segs])
        if not (fog == twin) or fog.serialize() != twin.serialize():
            raise Violation("badarg-later-result-differs", "fog differs from the twin that never received the bad calls")
        ctx.count("twin_steps_compared")


def run_case(case, ctx):
    fam = case["family"]
    ctx.count("matrix_cells", len(case.get("bad", [])) if isinstance(case.get("bad"), list) else 0)
    if fam == "hexary":
        run_hexary(case, ctx)
    elif fam == "binary":
        run_binary(case, ctx)
    elif fam == "smt":
        run_smt(case, ctx)
    elif fam == "fog":
        run_fog(case, ctx)
    elif fam == "static":
        run_static(case, ctx)
    else:
        raise ValueError(fam)


def shrink(case, monitor):
    if isinstance(case.get("bad"), list):
        return shrink_list(sys.modules[__name__], case, monitor, field="bad")
    return case


def run_shard(ctx):
    rnd = ctx.rnd
    mod = sys.modules[__name__]
    rounds = 30 if ctx.tier == "quick" else 200
    # full matrices, rotated through the histories of this shard
    hex_cells = [(e, k) for e in HEX_NAMES for k in BAD_KINDS]
    bin_cells = [(e, k) for e in BIN_NAMES for k in BAD_KINDS]
    smt_cells = []
    for e in SMT_NAMES:
        kinds = list(BAD_KINDS)
        if e not in SMT_VALUE_ENTRIES:
            kinds += ["short", "long", "empty"]
        smt_cells += [(e, k) for k in kinds]
    smt_cells += [("calc_root_key", k) for k in ("branch_short", "branch_long", "branch_empty")]
    smt_cells += [("proof_ctor_key", k) for k in ("branch_short", "branch_long", "branch_empty")]
    for r in range(rounds):
        for cells, fam in ((hex_cells, "hexary"), (hex_cells, "hexary_batch"), (bin_cells, "binary"), (smt_cells, "smt")):
            mine = [c for i, c in enumerate(cells) if (i + r) % ctx.nshards == ctx.shard]
            rnd.shuffle(mine)
            while mine:
                chunk, mine = mine[:4], mine[4:]
                if fam.startswith("hexary"):
                    h = hh.gen_history(rnd, rnd.randint(3, 12), batch_p=0.0)
                    case = {"family": "hexary", "prune": h["prune"], "hist": h["ops"], "pseed": rnd.randrange(1 << 30),
                            "in_batch": fam == "hexary_batch",
                            "bad": [[rnd.randint(0, len(h["ops"])), e, k] for e, k in chunk]}
                elif fam == "binary":
                    b = be.gen_ops(rnd, rnd.randint(3, 12))
                    case = {"family": "binary", "ops": b["ops"], "pseed": rnd.randrange(1 << 30),
                            "bad": [[rnd.randint(1, len(b["ops"])), e, k] for e, k in chunk]}
                else:
                    ks = rnd.choice([1, 2, 3, 32])
                    ops = []
                    for _ in range(rnd.randint(2, 8)):
                        kb = bytes(rnd.randrange(256) for _ in range(ks))
                        if rnd.random() < 0.7:
                            ops.append(["set", kb.hex(), (bytes([rnd.randrange(1, 256)]) * 3).hex()])
                        else:
                            ops.append(["del", kb.hex()])
                    case = {"family": "smt", "ks": ks, "default": rnd.choice(["", "64666c74"]), "ops": ops,
                            "pseed": rnd.randrange(1 << 30),
                            "bad": [[rnd.randint(0, len(ops)), e, k] for e, k in chunk]}
                if len(ctx.samples) < 3 and ctx.shard == 0:
                    ctx.sample(case)
                run_case_guarded(mod, case, ctx)
                if ctx.full:
                    return
        # fog
        steps = []
        for _ in range(rnd.randint(1, 5)):
            steps.append([0, [[n] for n in sorted(rnd.sample(range(16), rnd.randint(0, 3)))]])
        case = {"family": "fog", "steps": steps, "pseed": rnd.randrange(1 << 30),
                "bad": {str(rnd.randrange(len(steps))): [rnd.randrange(100) for _ in range(3)]}}
        run_case_guarded(mod, case, ctx)
        if r == 0 or ctx.tier == "thorough":
            for what in ("key_size", "ref_count_nonpruning", "snapshot_pruning", "nibbles"):
                run_case_guarded(mod, {"family": "static", "what": what}, ctx)
        if ctx.full:
            return
