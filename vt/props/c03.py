"""C03 - hexary Merkle proofs are complete and sound.

Deciding monitors (fault enumeration over proof corruptions):
 completeness - for every probe key get_proof(k) consists only of nodes the REFERENCE trie has on
   k's path, get_from_proof(root, k, get_proof(k)) returns the model's value without raising,
   and an independent verifier that follows only hash pointers agrees;
 soundness - every corruption of the node list (each single node dropped, truncations, reversal,
   shuffle, duplication, a bit flipped inside a value / child hash / path, nodes spliced in from a
   sibling trie that stores other values under the same keys, another key's proof, pairs of these)
   is offered against the roots of tries whose contents the harness knows (this trie, the sibling,
   an older version, the blank root) and a random root: the answer must be the value that root
   really holds or BadTrieProof; withholding a hashed path node must give BadTrieProof."""
import copy
import random
import sys

from eth_hash.auto import keccak
from trie import HexaryTrie
from trie.exceptions import BadTrieProof

from vt import gen
from vt.core import Raised, Violation, cut, hx, run_case_guarded, shrink_list, unhx
from vt.engines import hexary_history as hh
from vt.engines import hexary_static as hs
from vt.ref.mpt import BLANK_ROOT, RefTrie, nibs, rlp_enc

ID = "C03"
LEVEL = "fault_enumeration"
RULE = (
    "case = (trie A, sibling trie B sharing keys with other values, older version of A) x probe keys "
    "(stored, absent, proper prefixes, extensions, divergences) x corruptions of the proof x claimed "
    "roots; evaluations = get_from_proof calls judged; distinct = distinct (canonical shape of A, key "
    "class, corruption kind, root kind); non-trivial = proof with at least 2 nodes"
)
ASSUMPTIONS = [
    "only well-formed nodes are offered (malformed ones belong to C18)",
    "roots are those of tries whose contents the harness knows, or random (then only BadTrieProof is acceptable)",
    "keccak collision resistance; an omitted EMBEDDED node may legitimately still verify",
]
FLOORS = {
    "quick": {"honest_proofs": 1, "verifications": 1, "corrupt_rejected": 1, "corrupt_returned_truth": 1,
              "withheld_hashed": 1, "kind_drop": 1, "kind_flip": 1, "kind_splice": 1, "kind_otherkey": 1,
              "kind_pair": 1, "root_random": 1, "root_sibling": 1, "root_older": 1, "root_blank": 1,
              "key_proper_prefix": 1, "key_extension": 1, "key_stored": 1, "independent_verifier": 1,
              "moving_proof_rounds": 1, "moving_proof_after_batch": 1, "moving_proof_root_reassigned": 1},
}
FLOORS["thorough"] = dict(FLOORS["quick"])


def listify(x):
    if isinstance(x, (list, tuple)):
        return [listify(i) for i in x]
    return bytes(x)


def independent_verify(root, key, proof):
    """25-line verifier: follows only hash pointers into {keccak(rlp(node)): node}.
    Returns the value, b'' for proven absence, or None when a needed node is missing."""
    db = {keccak(rlp_enc(n)): n for n in proof}
    k = nibs(key)
    if root == BLANK_ROOT:
        return b""
    node = db.get(root)
    i = 0
    while True:
        if node is None:
            return None
        if node == b"":
            return b""
        if len(node) == 17:
            if i == len(k):
                return node[16]
            ref = node[k[i]]
            i += 1
        else:
            hpb = node[0]
            flag = hpb[0] >> 4
            pn = list(nibs(hpb))[1:] if flag & 1 else list(nibs(hpb))[2:]
            rest = list(k[i:])
            if flag & 2:
                return node[1] if rest == pn else b""
            if rest[: len(pn)] != pn:
                return b""
            i += len(pn)
            ref = node[1]
        if isinstance(ref, list):
            node = ref
        elif ref == b"":
            return b""
        else:
            node = db.get(ref)


def flip_bit(node, rnd):
    """alter one bit inside a value, a 32-byte child hash or a path byte; length preserved,
    node stays well-formed; returns None when nothing can be altered"""
    node = copy.deepcopy(node)
    if len(node) == 17:
        idxs = [j for j in range(17) if isinstance(node[j], bytes) and node[j] != b""]
        if not idxs:
            return None
        j = rnd.choice(idxs)
        b = bytearray(node[j])
        b[rnd.randrange(len(b))] ^= 1 << rnd.randrange(8)
        node[j] = bytes(b)
        return node
    which = rnd.randrange(2)
    if which == 0 and len(node[0]) > 1:
        b = bytearray(node[0])
        b[rnd.randrange(1, len(b))] ^= 1 << rnd.randrange(8)
        node[0] = bytes(b)
        return node
    if isinstance(node[1], bytes) and node[1]:
        b = bytearray(node[1])
        b[rnd.randrange(len(b))] ^= 1 << rnd.randrange(8)
        node[1] = bytes(b)
        return node
    return None


def corruptions(proof, rnd, other_proof, foreign_proof):
    """(kind, detail, corrupted list)"""
    n = len(proof)
    for i in range(n):
        yield ("drop", i, proof[:i] + proof[i + 1:])
    if n:
        yield ("trunc", 1, proof[:-1])
        if n > 2:
            yield ("trunc", 2, proof[:-2])
        yield ("reverse", None, proof[::-1])
        sh = list(proof)
        rnd.shuffle(sh)
        yield ("shuffle", None, sh)
        yield ("dup", None, proof + proof)
    for i in range(n):
        alt = flip_bit(proof[i], rnd)
        if alt is not None:
            yield ("flip", i, proof[:i] + [alt] + proof[i + 1:])
            yield ("flip+orig", i, proof + [alt])
    yield ("splice", "other-only", list(other_proof))
    yield ("splice", "append", proof + list(other_proof))
    if n and other_proof:
        yield ("splice", "halves", proof[: n // 2] + list(other_proof)[len(other_proof) // 2:])
    yield ("otherkey", None, list(foreign_proof))
    yield ("empty", None, [])


def complete(A, ma, refa, k, ctx, where=""):
    """completeness of the honest proof of key k in trie A (model ma, reference refa);
    returns the proof as nested lists"""
    proof = cut(A.get_proof, k)
    proof = [listify(n) for n in proof]
    ref_path = [listify(node.raw()) for _, node in refa.path_nodes(nibs(k))]
    for n in proof:
        if n not in ref_path:
            raise Violation("proof-off-path", "%sget_proof(%s) contains a node that is not on the key's path in the canonical trie" % (where, hx(k)))
    truth = ma.get(k, b"")
    got = cut(HexaryTrie.get_from_proof, A.root_hash, k, tuple(proof), expect=(BadTrieProof,))
    if isinstance(got, Raised):
        raise Violation("proof-incomplete", "%sget_from_proof rejects get_proof(%s) (%d nodes, canonical path has %d): %s" % (
            where, hx(k), len(proof), len(ref_path), got.exc))
    if got != truth or got != cut(A.get, k):
        raise Violation("proof-complete-value", "%sget_from_proof(root, %s, get_proof) = %s, trie holds %s" % (where, hx(k), hx(got), hx(truth)))
    iv = independent_verify(A.root_hash, k, proof)
    if iv != truth:
        raise Violation("proof-incomplete", "%sindependent hash-pointer verifier gets %r from get_proof(%s), trie holds %s "
                        "(proof has %d nodes, canonical path %d)" % (where, iv if iv is None else hx(iv), hx(k), hx(truth), len(proof), len(ref_path)))
    ctx.count("independent_verifier")
    ctx.count("honest_proofs")
    return proof


class MovingProofRunner(hh.Runner):
    """Completeness while the root moves: after every operation of a generated history (plain,
    inside an open squash_changes block, after its commit or abort, after root_hash was pointed at
    an earlier root of a non-pruning trie and back) the honest proofs of a fixed small set of
    keys - asked for again and again, so anything remembered from an earlier root is exposed -
    plus a few content-aimed keys must verify against the CURRENT root."""

    def __init__(self, case, ctx):
        super().__init__(case, ctx)
        self.roots = []
        self.fixed = None

    def look(self, trie, model, where):
        ref = RefTrie(model)
        if self.fixed is None:
            self.fixed = [b"", b"\x12", b"\x00\x01"]
        keys = list(self.fixed) + sorted(model)[:2]
        extra = gen.probe_keys(self.rnd, model, extra=1)
        keys += self.rnd.sample(extra, min(3, len(extra)))
        for k in keys:
            complete(trie, model, ref, k, self.ctx, where)
        if model and len(self.fixed) < 6:
            self.fixed.append(self.rnd.choice(sorted(model)))
        self.ctx.count("moving_proof_rounds")

    def after_op(self, op):
        self.look(self.trie, self.model, "after %s: " % op[0])
        if not self.prune:
            self.roots.append((self.trie.root_hash, dict(self.model)))
            if len(self.roots) > 1 and self.rnd.random() < 0.3:
                old_root, old_model = self.rnd.choice(self.roots[:-1])
                cur = self.trie.root_hash
                self.trie.root_hash = old_root
                self.look(self.trie, old_model, "after root_hash was pointed at an earlier root: ")
                self.trie.root_hash = cur
                self.look(self.trie, self.model, "after root_hash was pointed back: ")
                self.ctx.count("moving_proof_root_reassigned")
        if op[0] == "batch":
            self.ctx.count("moving_proof_after_batch")

    def after_batch_op(self, btrie, bmodel, op):
        self.look(btrie, bmodel, "batch trie inside an open block: ")
        self.look(self.trie, self.model, "outer trie while a block is open: ")


def run_case(case, ctx):
    if case.get("engine") == "hh":
        MovingProofRunner(case, ctx).run()
        ctx.evaluated()
        return
    rnd = random.Random(case.get("pseed", 0))
    A, dba, ma, refa = hs.build({"prune": False, "hist": case["hist"]})
    older = (A.root_hash, dict(ma))
    if case.get("hist_older_cut") is not None:
        A0, _, m0, _ = hs.build({"prune": False, "hist": case["hist"][: case["hist_older_cut"]]})
        older = (A0.root_hash, m0)
    B, dbb, mb, refb = hs.build({"prune": False, "hist": case["hist_b"]})
    rand_root = bytes(rnd.randrange(256) for _ in range(32))
    roots = [("own", A.root_hash, ma), ("sibling", B.root_hash, mb), ("older", older[0], older[1]),
             ("blank", BLANK_ROOT, {}), ("random", rand_root, None)]
    probes = gen.probe_keys(rnd, ma, extra=3)
    if len(probes) > case.get("maxkeys", 10):
        stored = [k for k in probes if k in ma]
        rest = [k for k in probes if k not in ma]
        rnd.shuffle(stored)
        rnd.shuffle(rest)
        probes = stored[: case.get("maxkeys", 10) // 2] + rest[: case.get("maxkeys", 10) // 2]
    shape = refa.shape()
    for k in probes:
        if k in ma:
            kc = "stored"
        elif any(s.startswith(k) for s in ma):
            kc = "proper_prefix"
        elif any(k.startswith(s) for s in ma):
            kc = "extension"
        else:
            kc = "absent"
        ctx.count("key_" + kc)
        # ---------------------------------------------------------------- completeness
        proof = complete(A, ma, refa, k, ctx)
        truth = ma.get(k, b"")
        hashed_on_path = [i for i, n in enumerate(proof) if i == 0 or len(rlp_enc(n)) >= 32]
        # ------------------------------------------------------------------- soundness
        other_proof = [listify(n) for n in cut(B.get_proof, k)]
        k2 = rnd.choice(probes)
        foreign = [listify(n) for n in cut(A.get_proof, k2)]
        cases = list(corruptions(proof, rnd, other_proof, foreign))
        # pairs of corruptions composed
        for _ in range(3):
            c1 = rnd.choice(cases)
            second = list(corruptions(c1[2], rnd, other_proof, foreign))
            if second:
                c2 = rnd.choice(second)
                cases.append(("pair", (c1[0], c2[0]), c2[2]))
        # the same list OBJECT offered twice: once honest, then with one node replaced in place
        # (same length) - the second verdict must be about what the list holds now
        if proof:
            same = [copy.deepcopy(n) for n in proof]
            first = cut(HexaryTrie.get_from_proof, A.root_hash, k, same, expect=(BadTrieProof,))
            if isinstance(first, Raised) or first != truth:
                raise Violation("proof-incomplete", "get_from_proof rejects the honest proof of %s when it is handed over as a list" % hx(k))
            j = rnd.choice(hashed_on_path)
            alt = flip_bit(same[j], rnd)
            if alt is not None:
                same[j] = alt
                again = cut(HexaryTrie.get_from_proof, A.root_hash, k, same, expect=(BadTrieProof,))
                if not isinstance(again, Raised):
                    raise Violation("proof-withheld-accepted", "the same proof list, with hashed path node %d replaced in place, was accepted again (returned %s)" % (j, hx(again)))
                ctx.count("same_object_reverified")
        for kind, where, bad in cases:
            ctx.count("kind_" + kind.split("+")[0])
            for rname, root, rmodel in roots:
                res = cut(HexaryTrie.get_from_proof, root, k, tuple(bad), expect=(BadTrieProof,))
                ctx.count("verifications")
                ctx.evaluated()
                ctx.count("root_" + rname)
                if isinstance(res, Raised):
                    ctx.count("corrupt_rejected")
                else:
                    if rmodel is None:
                        raise Violation("proof-unsound", "get_from_proof accepted a proof against a random root and returned %s" % hx(res))
                    if res != rmodel.get(k, b""):
                        raise Violation("proof-unsound", "corruption %s/%r against the %s root: returned %s for key %s, that trie holds %s" % (
                            kind, where, rname, hx(res), hx(k), hx(rmodel.get(k, b""))))
                    ctx.count("corrupt_returned_truth")
                if kind == "drop" and rname == "own" and where in hashed_on_path:
                    ctx.count("withheld_hashed")
                    if not isinstance(res, Raised):
                        raise Violation("proof-withheld-accepted", "hashed path node %d of %d withheld for key %s but get_from_proof returned %s" % (
                            where, len(proof), hx(k), hx(res)))
                ctx.shape((shape, kc, kind, rname), len(proof) >= 2)
    ctx.count("tries")


def shrink(case, monitor):
    mod = sys.modules[__name__]
    if case.get("engine") == "hh":
        return shrink_list(mod, case, monitor, field="ops")
    c = shrink_list(mod, case, monitor, field="hist_b")
    return shrink_list(mod, c, monitor, field="hist")


def gen_case(rnd, tier):
    a = hs.gen_build(rnd, maxkeys=10 if tier == "quick" else 16, prune=False) if rnd.random() > 0.04 else \
        hs.gen_build(rnd, maxkeys=70, prune=False, bulk=True)
    hist = a["hist"]
    # sibling: shares keys with A, stores other values under some of them
    pool = gen.value_pool(rnd)
    hist_b = [list(op) for op in hist if rnd.random() < 0.7]
    keys = [op[1] for op in hist if op[0] == "set"]
    for kx in rnd.sample(keys, min(len(keys), 3)):
        hist_b.append(["set", kx, rnd.choice(pool).hex(), 0])
    return {"hist": hist, "hist_b": hist_b, "hist_older_cut": rnd.randint(0, len(hist)) if hist else None,
            "pseed": rnd.randrange(1 << 30), "maxkeys": 8 if tier == "quick" else 14, "universe": a["universe"]}


def run_shard(ctx):
    rnd = ctx.rnd
    mod = sys.modules[__name__]
    n = 120 if ctx.tier == "quick" else 1000
    for i in range(n):
        case = gen_case(rnd, ctx.tier)
        if i == 1:
            ctx.sample(case)
        run_case_guarded(mod, case, ctx)
        if ctx.full:
            return
    for i in range(60 if ctx.tier == "quick" else 600):
        case = hh.gen_history(rnd, rnd.randint(2, 16 if ctx.tier == "quick" else 40), batch_p=0.3)
        if i == 0:
            ctx.sample(case)
        run_case_guarded(mod, case, ctx)
        if ctx.full:
            return
