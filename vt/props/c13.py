"""C13 - binary-trie branches and witnesses are sufficient, exact and unforgeable.

Deciding monitors: for generated non-empty BinaryTries and probe keys / prefixes the results of
get_branch, if_branch_valid, check_if_branch_exist, get_trie_nodes and
get_witness_for_key_prefix are compared with the dict model and with the node set of the
reference canonical trie; every corruption of a branch (each node dropped, truncation, a bit
flipped in a node body, the branch of another key, of a sibling trie storing other values) is
offered to if_branch_valid with the true answer, a wrong value and 'absent': it may only
return true for the answer the trie really gives."""
import random
import sys

from eth_hash.auto import keccak
from trie import BinaryTrie
from trie.branches import (
    check_if_branch_exist,
    get_branch,
    get_trie_nodes,
    get_witness_for_key_prefix,
    if_branch_valid,
)
from trie.exceptions import InvalidKeyError

from vt.core import Raised, Violation, cut, hx, run_case_guarded, shrink_list
from vt.engines import binary as be
from vt.ref.bintrie import RefBin, prefix_related

ID = "C13"
LEVEL = "fault_enumeration"
RULE = (
    "case = one non-empty binary trie (built by a generated history) + a sibling trie storing other "
    "values, x probe keys / prefixes (stored, absent diverging, proper prefixes, extensions, empty "
    "prefix) x corruptions of the branch x claimed answers; evaluations = if_branch_valid / witness / "
    "existence judgements; distinct = distinct (canonical shape, key class, corruption kind, claimed "
    "answer kind); non-trivial = branch with at least 2 nodes"
)
ASSUMPTIONS = [
    "node collections are compared as sets (shared sub-tries are yielded more than once)",
    "if_branch_valid 'does not validate' when it raises anything or returns a false value",
    "only bodies whose first byte is a valid node type are offered (others are refused as ill-formed: C18)",
]
FLOORS = {"quick": {k: 1 for k in [
    "honest_validated", "honest_absent_validated", "branch_refused_invalidkey", "corrupt_judged",
    "corrupt_not_validated", "corrupt_validated_truth", "kind_drop", "kind_flip", "kind_otherkey",
    "kind_sibling", "kind_trunc", "exist_checks", "exist_true", "exist_false", "trie_nodes_checks",
    "witness_ok", "witness_refused", "witness_reads", "wrong_claims_rejected", "partial_db_walks",
    "related_branch_claims_rejected", "tries_over_a_minimal_mapping"]}}
FLOORS["thorough"] = dict(FLOORS["quick"])


def validated(branch, root, key, value):
    """True only when if_branch_valid returns a true value without raising."""
    if not branch:
        return False
    r = cut(if_branch_valid, tuple(branch), root, key, value, expect=(Exception,))
    return (not isinstance(r, Raised)) and bool(r)


def flip(node, rnd):
    if len(node) < 2:
        return None
    b = bytearray(node)
    b[rnd.randrange(1, len(b))] ^= 1 << rnd.randrange(8)
    return bytes(b)


def run_case(case, ctx):
    rnd = random.Random(case.get("pseed", 0))
    t, db = be.new_trie(ctx, minimal=case.get("pseed", 0) % 5 == 0)
    model = {}
    for op in case["ops"]:
        be.apply(t, model, op, ctx)
    if not model:
        # (the property speaks of non-empty tries; on an empty one - its root an equal but not
        # identical copy of the blank hash - the helpers must at least agree that nothing is there)
        blank = bytes(bytearray(t.root_hash))      # equal to the blank hash, not the same object
        for k in (b"\x01", b"\x12\x34"):
            if cut(check_if_branch_exist, db, blank, k):
                raise Violation("bin-branch-exist", "check_if_branch_exist(%s) is true on an empty trie" % hx(k))
            br0 = cut(get_branch, db, blank, k, expect=(InvalidKeyError,))
            if not isinstance(br0, Raised) and len(br0):
                raise Violation("bin-branch-foreign-node", "get_branch on an empty trie yields nodes")
            if cut(BinaryTrie(db, blank).get, k) is not None:
                raise Violation("bin-lookup", "get on an empty trie returned a value")
        if list(cut(get_trie_nodes, db, blank)):
            raise Violation("bin-trie-nodes", "get_trie_nodes of an empty trie yields nodes")
        ctx.count("empty_skipped")
        return
    tb, dbb = be.new_trie()
    mb = {}
    for op in case["ops_b"]:
        be.apply(tb, mb, op)
    ref = RefBin(model)
    refnodes = set(ref.nodes.values())
    root = t.root_hash
    shape = ref.shape()
    raw = db.raw()

    # ---- a walk over a PARTIAL database first (a client that holds only the root node): it can
    # only yield what that database holds, and must not influence later walks over the full one
    if case.get("pseed", 0) % 2 == 0:
        part = {root: raw[root]}
        gp = cut(get_trie_nodes, part, root)
        if not set(gp) <= {raw[root]}:
            raise Violation("bin-trie-nodes", "get_trie_nodes over a database holding only the root node yields %d other node(s)" % len(set(gp) - {raw[root]}))
        ctx.count("partial_db_walks")
    # ---- get_trie_nodes: exactly the nodes reachable from the root
    got = cut(get_trie_nodes, db, root)
    if set(got) != refnodes:
        raise Violation("bin-trie-nodes", "get_trie_nodes returns %d distinct nodes, the canonical trie has %d (%d foreign, %d missing)" % (
            len(set(got)), len(refnodes), len(set(got) - refnodes), len(refnodes - set(got))))
    ctx.count("trie_nodes_checks")

    probes = be.probes(rnd, model)
    if case.get("maxprobes") and len(probes) > case["maxprobes"]:
        # a ladder: the base key (its branch has one node per bit, plus the leaf), a few others
        lens = sorted(model, key=lambda s: len(cut(get_branch, db, root, s)))
        probes = [lens[-1], lens[0]] + rnd.sample(probes, case["maxprobes"] - 2)
    for k in probes:
        truth = model.get(k)
        related = any(prefix_related(k, s) for s in model)
        kc = "stored" if k in model else ("prefix_related" if related else "absent")
        # ---- check_if_branch_exist
        ex = cut(check_if_branch_exist, db, root, k)
        exp = any(s.startswith(k) for s in model)
        if bool(ex) != exp:
            raise Violation("bin-branch-exist", "check_if_branch_exist(%s)=%r, %s stored key starts with it" % (hx(k), ex, "a" if exp else "no"))
        ctx.count("exist_checks")
        ctx.count("exist_true" if exp else "exist_false")
        # ---- get_branch / if_branch_valid
        br = cut(get_branch, db, root, k, expect=(InvalidKeyError,))
        if isinstance(br, Raised):
            if k in model or not related:
                raise Violation("bin-branch-refused", "get_branch(%s) raised InvalidKeyError for a key that is %s" % (
                    hx(k), "stored" if k in model else "neither stored nor prefix-related to a stored key"))
            ctx.count("branch_refused_invalidkey")
            # a refused key has an answer all the same (absent): the honest branches of the
            # stored keys it is prefix-related to must not validate any value for it
            for s in [s for s in model if prefix_related(k, s)][:3]:
                sb_ = cut(get_branch, db, root, s, expect=(InvalidKeyError,))
                if isinstance(sb_, Raised):
                    continue
                for claim in (model[s], b"forged"):
                    if validated(list(sb_), root, k, claim):
                        raise Violation("bin-branch-forged", "the branch of the stored key %s validates the value %r for key %s, which the trie does not hold" % (hx(s), claim, hx(k)))
                    ctx.count("related_branch_claims_rejected")
        else:
            br = list(br)
            if not set(br) <= refnodes:
                raise Violation("bin-branch-foreign-node", "get_branch(%s) yields a node that is not part of the trie" % hx(k))
            if cut(t.get, k) != truth:
                raise Violation("bin-lookup", "get(%s) disagrees with the model" % hx(k))
            if not validated(br, root, k, truth):
                raise Violation("bin-branch-insufficient", "if_branch_valid does not confirm the trie's answer %r for key %s from get_branch's %d node(s)" % (
                    truth, hx(k), len(br)))
            ctx.count("honest_validated" if truth is not None else "honest_absent_validated")
            ctx.evaluated()
            # honest branch, wrong claims
            for claim in ([b"forged"] if truth != b"forged" else [b"forged2"]) + ([None] if truth is not None else []):
                if validated(br, root, k, claim):
                    raise Violation("bin-branch-forged", "honest branch for %s validates the wrong answer %r (truth %r)" % (hx(k), claim, truth))
                ctx.count("wrong_claims_rejected")
            # corruptions
            bad = []
            positions = range(len(br))
            if len(br) > 40:
                # a ladder: the ends and a sample of the middle
                positions = sorted(set([0, 1, len(br) - 2, len(br) - 1] + rnd.sample(range(len(br)), 8)))
            for i in positions:
                bad.append(("drop", br[:i] + br[i + 1:]))
                f = flip(br[i], rnd)
                if f is not None:
                    bad.append(("flip", br[:i] + [f] + br[i + 1:]))
                    bad.append(("flip", br + [f]))
            bad.append(("trunc", br[:-1]))
            k2 = rnd.choice(probes)
            ob = cut(get_branch, db, root, k2, expect=(InvalidKeyError,))
            if not isinstance(ob, Raised):
                bad.append(("otherkey", list(ob)))
            sb = cut(get_branch, dbb, tb.root_hash, k, expect=(InvalidKeyError,)) if mb else ()
            if not isinstance(sb, Raised) and sb:
                bad.append(("sibling", list(sb)))
                bad.append(("sibling", br[:1] + list(sb)[1:]))
            claims = [truth, b"forged", mb.get(k), None]
            for kind, cb in bad:
                ctx.count("kind_" + kind)
                for claim in claims:
                    for r_, rname in ((root, "own"), (tb.root_hash, "sibling")):
                        rtruth = truth if rname == "own" else mb.get(k)
                        ok = validated(cb, r_, k, claim)
                        ctx.count("corrupt_judged")
                        ctx.evaluated()
                        if ok and claim != rtruth:
                            raise Violation("bin-branch-forged", "corrupted branch (%s) validates answer %r for key %s against the %s root, that trie gives %r" % (
                                kind, claim, hx(k), rname, rtruth))
                        ctx.count("corrupt_validated_truth" if ok else "corrupt_not_validated")
                        ctx.shape((shape, kc, kind, "truth" if claim == rtruth else "wrong"), len(br) >= 2)
    # ---- witnesses for key prefixes (including the empty prefix and prefixes ending inside kv paths)
    prefixes = set(probes) | {b""}
    for k in model:
        for i in range(len(k) + 1):
            prefixes.add(k[:i])
    if case.get("maxprobes") and len(prefixes) > 60:
        prefixes = set(rnd.sample(sorted(prefixes), 60)) | {b""}
    for p in sorted(prefixes):
        w = cut(get_witness_for_key_prefix, db, root, p, expect=(InvalidKeyError,))
        if isinstance(w, Raised):
            if not any(s != p and p.startswith(s) for s in model):
                raise Violation("bin-witness-refused", "get_witness_for_key_prefix(%s) raised InvalidKeyError although no stored key is a proper prefix of it" % hx(p))
            ctx.count("witness_refused")
            continue
        if not set(w) <= refnodes:
            raise Violation("bin-witness-foreign-node", "witness for prefix %s contains a node that is not part of the trie" % hx(p))
        wdb = {keccak(n): n for n in w}
        wt = BinaryTrie(wdb, root)
        for s in [s for s in model if s.startswith(p)] + [p + b"\x00", p + b"\xff\x01", p + b"\x80"]:
            if not s:
                continue
            r = cut(wt.get, s, expect=(KeyError,))
            if isinstance(r, Raised):
                raise Violation("bin-witness-insufficient", "witness for prefix %s cannot answer get(%s): node %s missing" % (hx(p), hx(s), r.exc))
            if r != model.get(s):
                raise Violation("bin-witness-insufficient", "witness for prefix %s answers get(%s)=%r, trie holds %r" % (hx(p), hx(s), r, model.get(s)))
            ctx.count("witness_reads")
        ctx.count("witness_ok")
        ctx.evaluated()
        # the witness database is partial: walking it yields only nodes it holds
        gw = cut(get_trie_nodes, wdb, root)
        if not set(gw) <= set(w):
            raise Violation("bin-trie-nodes", "get_trie_nodes over the witness database of prefix %s yields nodes the witness does not contain" % hx(p))
        ctx.count("partial_db_walks")
    # ---- and again over the complete database, after all the partial walks and the sibling's
    got = cut(get_trie_nodes, db, root)
    if set(got) != refnodes:
        raise Violation("bin-trie-nodes", "second get_trie_nodes (after walks over partial databases) returns %d distinct nodes, the canonical trie has %d (%d foreign, %d missing)" % (
            len(set(got)), len(refnodes), len(set(got) - refnodes), len(refnodes - set(got))))
    if mb:
        refb = RefBin(mb)
        gb = cut(get_trie_nodes, dbb, tb.root_hash)
        if set(gb) != set(refb.nodes.values()):
            raise Violation("bin-trie-nodes", "get_trie_nodes of the sibling trie returns %d distinct nodes, its canonical trie has %d" % (
                len(set(gb)), len(set(refb.nodes.values()))))
    ctx.count("trie_nodes_checks")


def shrink(case, monitor):
    mod = sys.modules[__name__]
    return shrink_list(mod, case, monitor, field="ops")


def run_shard(ctx):
    rnd = ctx.rnd
    mod = sys.modules[__name__]
    n = 250 if ctx.tier == "quick" else 2000
    ladder = be.gen_ladder(rnd, rnd.choice([32, 32, 40]))
    ladder["ops_b"] = []
    ladder["pseed"] = rnd.randrange(1 << 30)
    ladder["maxprobes"] = 12
    if ctx.shard % 2 == 0 or ctx.tier == "thorough":
        run_case_guarded(mod, ladder, ctx)
        ctx.count("ladders")
    for i in range(n):
        if i % 25 == 24:
            case = be.gen_ops(rnd, rnd.randint(40, 80), mode=rnd.choice(["dense", "fix2", "k32", "var"]))
            ctx.count("bulk_histories")
        else:
            case = be.gen_ops(rnd, rnd.randint(1, 12 if ctx.tier == "quick" else 30))
        # sibling trie: same sets, other values for some keys
        ops_b = []
        for op in case["ops"]:
            if op[0] == "set" and rnd.random() < 0.5:
                ops_b.append(["set", op[1], (bytes([rnd.randrange(1, 256)]) * 2).hex()])
            elif rnd.random() < 0.8:
                ops_b.append(list(op))
        case["ops_b"] = ops_b
        case["pseed"] = rnd.randrange(1 << 30)
        if i == 1:
            ctx.sample(case)
        run_case_guarded(mod, case, ctx)
        if ctx.full:
            return
