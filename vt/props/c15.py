"""C15 - SparseMerkleProof stays in sync from streamed updates alone.

Deciding monitor: a SparseMerkleProof is created once from the tree's value and branch for a
tracked key and then only ever fed the (key, value, returned node hashes) of each subsequent
update of the tree.  After every update: value / branch / root hash of the proof equal the
tree's (and the reference tree's).  Before feeding an update to another key every truncation
of the node list shorter than (first differing bit + 1) is offered and must be rejected with
ValidationError without changing the proof; the list truncated to exactly that length must be
accepted and give the same result as the full list; a same-key update needs no hashes."""
import random
import sys

from trie.exceptions import ValidationError
from trie.smt import SparseMerkleProof, SparseMerkleTree

from vt.core import Raised, Violation, cut, hx, run_case_guarded, shrink_list, unhx
from vt.ref.smt import RefSMT, RefSMTState

ID = "C15"
LEVEL = "exploration"
RULE = (
    "case = (key size, default, tracked key, stream of updates to keys that differ from the tracked key "
    "at chosen bit positions / to the tracked key itself / repeats / deletions); evaluations = update "
    "streams; distinct = distinct (key size, default kind, sequence of branch points of the stream); "
    "non-trivial = at least 2 updates with different branch points"
)
ASSUMPTIONS = ["the tree itself is judged by C14; the reference tree is used where the tree cannot be queried (blank tracked value)"]
EXHAUSTIVE = {
    "quick": "key size 1 and 2: an update differing from the tracked key at every single bit position, every truncation length",
    "thorough": "key sizes 1, 2, 3 and 32: an update differing at every single bit position, every truncation length",
}
FLOORS = {"quick": {k: 1 for k in [
    "updates_fed", "sync_checks", "truncations_rejected", "exact_minimum_accepted", "same_key_updates",
    "same_key_no_hashes", "deletions_fed", "tracked_deleted", "branch_point_0", "branch_point_last",
    "branch_points_distinct", "ks_1", "ks_2", "ks_3", "ks_8", "ks_32", "stream_from_a_reopened_tree"]}}
FLOORS["thorough"] = dict(FLOORS["quick"])

DEFAULTS = [b"", b"", b"\x00" * 32, b"dflt"]



def pattern_key(rnd, depth, near=None):
    """Keys made of long runs of equal bits (all zeros, all ones, 0111..1, 1000..0, 0101.., a run
    of ones of random length, everything-but-one-bit): XORs of such keys are long runs of ones,
    which is where arithmetic on bit positions goes wrong.  With `near`, the key differs from
    it by such a run."""
    full = (1 << depth) - 1
    pats = [0, full, full >> 1, 1 << (depth - 1), 1, full ^ 1, int("01" * (depth // 2), 2), int("10" * (depth // 2), 2),
            (1 << rnd.randrange(1, depth + 1)) - 1, full ^ ((1 << rnd.randrange(0, depth)) - 1)]
    p = rnd.choice(pats)
    return (near ^ p) & full if near is not None and rnd.random() < 0.5 else p


def gen_case(rnd, tier, ks=None):
    ks = ks or rnd.choice([1, 1, 2, 3, 7, 8, 9, 32] if tier == "quick" else [1, 2, 3, 4, 7, 8, 9, 16, 20, 31, 32])
    depth = ks * 8
    default = rnd.choice(DEFAULTS)
    patterned = rnd.random() < 0.3
    tracked = pattern_key(rnd, depth) if patterned else rnd.getrandbits(depth)

    def rk():
        r = rnd.random()
        if patterned and r < 0.7:
            return pattern_key(rnd, depth, near=tracked)
        if r < 0.2:
            return tracked
        if r < 0.75:
            return tracked ^ (1 << rnd.randrange(depth))
        if r < 0.85:
            return tracked ^ (1 << rnd.randrange(depth)) ^ rnd.getrandbits(rnd.randrange(1, depth + 1))
        return rnd.getrandbits(depth)

    ops = []
    prev = None
    for _ in range(rnd.randint(1, 12 if tier == "quick" else 30)):
        k = prev if prev is not None and rnd.random() < 0.15 else rk()
        prev = k
        if rnd.random() < 0.7:
            v = bytes([rnd.randrange(1, 256)]) * rnd.choice([1, 2, 32, 40])
            ops.append(["set", k.to_bytes(ks, "big").hex(), v.hex()])
        else:
            ops.append(["del", k.to_bytes(ks, "big").hex()])
    return {"ks": ks, "default": default.hex(), "tracked": tracked.to_bytes(ks, "big").hex(),
            "initial": (bytes([rnd.randrange(1, 256)]) * 3).hex(), "ops": ops, "pseed": rnd.randrange(1 << 30),
            "full_lists": rnd.random() < 0.3, "observe_p": rnd.choice([1.0, 1.0, 0.5, 0.2]),
            "reopen": rnd.random() < 0.25}


def run_case(case, ctx):
    ks = case["ks"]
    depth = ks * 8
    default = unhx(case["default"])
    tb = unhx(case["tracked"])
    tracked = int.from_bytes(tb, "big")
    ref = RefSMT(ks, default)
    smt = SparseMerkleTree(key_size=ks, default=default)
    m = {}
    # the tracked key must be readable to create the proof from the tree's current value and branch
    if default == b"":
        v0 = unhx(case["initial"])
        cut(smt.set, tb, v0)
        m[tracked] = v0
    if case.get("reopen"):
        # the tree that produces the stream is one re-opened on the database of the first
        smt = cut(SparseMerkleTree.from_db, smt.db, smt.root_hash, key_size=ks, default=default)
        ctx.count("stream_from_a_reopened_tree")
    proof = cut(SparseMerkleProof, tb, cut(smt.get, tb), cut(smt.branch, tb))
    ctx.count("ks_%d" % ks)
    bps = []
    import random as _random
    rnd2 = _random.Random(case.get("pseed", 0))
    opi = 0
    handed_out = []
    for op in case["ops"]:
        kb = unhx(op[1])
        k = int.from_bytes(kb, "big")
        if op[0] == "set":
            v = unhx(op[2])
            upd = cut(smt.set, kb, v)
            m[k] = v
        else:
            upd = cut(smt.delete, kb)
            m.pop(k, None)
            v = default
            ctx.count("deletions_fed")
            if k == tracked:
                ctx.count("tracked_deleted")
        handed_out.append((upd, tuple(upd)))
        for obj, was in handed_out[-4:]:
            if tuple(obj) != was:
                raise Violation("smtproof-branch", "the node hashes returned by an earlier set/delete changed when a later one was made "
                                "(a consumer that applies queued updates would be fed the wrong hashes)")
        diff = tracked ^ k
        if diff:
            bp = depth - diff.bit_length()      # index of the first differing bit, MSB first
            bps.append(bp)
            if bp == 0:
                ctx.count("branch_point_0")
            if bp == depth - 1:
                ctx.count("branch_point_last")
            old = (proof.value, proof.branch)
            for L in range(0, bp + 1):
                r = cut(proof.update, kb, v, upd[:L], expect=(Exception,))
                if not isinstance(r, Raised):
                    raise Violation("smtproof-short-accepted", "update for a key that differs at bit %d accepted with only %d node hashes" % (bp, L))
                if not isinstance(r.exc, ValidationError):
                    raise Violation("smtproof-short-wrong-exception", "node list of length %d (needs %d) rejected with %s instead of ValidationError" % (L, bp + 1, type(r.exc).__name__))
                if (proof.value, proof.branch) != old:
                    raise Violation("smtproof-rejected-update-changed-proof", "rejected update (list length %d) changed the proof" % L)
                ctx.count("truncations_rejected")
            if case.get("full_lists"):
                cut(proof.update, kb, v, upd)
            else:
                r = cut(proof.update, kb, v, upd[: bp + 1], expect=(ValidationError,))
                if isinstance(r, Raised):
                    raise Violation("smtproof-minimum-rejected", "node list truncated to exactly first-differing-bit+1 = %d hashes was rejected" % (bp + 1))
                ctx.count("exact_minimum_accepted")
        else:
            ctx.count("same_key_updates")
            if case.get("full_lists"):
                cut(proof.update, kb, v, upd)
            else:
                # the tracked key's own update needs no hashes at all: a list pruned to ANY
                # length (as a stream pruned for several subscribers would be) must do
                L = rnd2.choice([0, 0, 1, 2, depth // 2, depth - 1])
                r = cut(proof.update, kb, v, upd[:L], expect=(ValidationError,))
                if isinstance(r, Raised):
                    raise Violation("smtproof-same-key-needs-hashes", "update of the tracked key itself rejected with a node list pruned to %d of %d hashes" % (L, depth))
                ctx.count("same_key_no_hashes" if L == 0 else "same_key_pruned_list")
        ctx.count("updates_fed")
        # not every stream is looked at after every update: reading root_hash (or anything else)
        # between two updates is a different execution from feeding them back to back
        opi += 1
        if case.get("observe_p", 1.0) < 1.0 and opi < len(case["ops"]) and rnd2.random() > case["observe_p"]:
            ctx.count("updates_not_observed")
            continue
        # ---- in sync with the tree?
        cur = m.get(tracked, default)
        st = RefSMTState(ref, m)
        if proof.value != cur:
            raise Violation("smtproof-value", "proof.value=%s, tree holds %s for the tracked key" % (hx(proof.value), hx(cur)))
        if tuple(proof.branch) != st.sibling_hashes(tracked):
            bad = [i for i, (a, b) in enumerate(zip(proof.branch, st.sibling_hashes(tracked))) if a != b]
            raise Violation("smtproof-branch", "proof.branch differs from the tree's branch at depth(s) %r after an update with branch point %r" % (bad[:4], bps[-1] if bps else None))
        if cur != b"" and tuple(proof.branch) != tuple(cut(smt.branch, tb)):
            raise Violation("smtproof-branch", "proof.branch differs from smt.branch(tracked)")
        if proof.root_hash != smt.root_hash:
            raise Violation("smtproof-root", "proof.root_hash differs from the tree's root")
        if proof.key != tb:
            raise Violation("smtproof-value", "proof.key changed")
        ctx.count("sync_checks")
    if len(set(bps)) >= 2:
        ctx.count("branch_points_distinct")
    ctx.evaluated()
    ctx.shape((ks, default == b"", tuple(bps)), len(set(bps)) >= 2)


def shrink(case, monitor):
    return shrink_list(sys.modules[__name__], case, monitor, field="ops")


def small_scope(ctx):
    idx = 0
    sizes = [1, 2] if ctx.tier == "quick" else [1, 2, 3, 32]
    for ks in sizes:
        depth = ks * 8
        for default in (b"", b"dflt"):
            for tracked in (0, (1 << depth) - 1, int("a5" * ks, 16)):
                for bit in range(depth):
                    if idx % ctx.nshards == ctx.shard:
                        other = tracked ^ (1 << bit)
                        ops = [["set", other.to_bytes(ks, "big").hex(), b"x1".hex()],
                               ["set", tracked.to_bytes(ks, "big").hex(), b"x2".hex()],
                               ["del", other.to_bytes(ks, "big").hex()]]
                        yield {"ks": ks, "default": default.hex(), "tracked": tracked.to_bytes(ks, "big").hex(),
                               "initial": b"ini".hex(), "ops": ops, "pseed": idx, "full_lists": False}
                    idx += 1


def run_shard(ctx):
    rnd = ctx.rnd
    mod = sys.modules[__name__]
    n = 150 if ctx.tier == "quick" else 1200
    for i in range(n):
        case = gen_case(rnd, ctx.tier)
        if i == 1:
            ctx.sample(case)
        run_case_guarded(mod, case, ctx)
        if ctx.full:
            return
    for case in small_scope(ctx):
        run_case_guarded(mod, case, ctx)
        ctx.count("exhaustive_cases")
        if ctx.full:
            return
