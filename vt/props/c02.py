"""C02 - HexaryTrie root hash is the canonical Ethereum MPT root of its contents.

Deciding monitor: after every operation the root hash (and the stored root body) is compared
with vt.ref.mpt - a top-down Yellow-Paper construction from the model's key set, anchored by
ethereum/tests known-answer vectors that both the reference and the code must reproduce."""
import itertools
import sys

from trie import HexaryTrie

from vt.core import Violation, cut, hx, run_case_guarded, shrink_list, unhx
from vt.engines import hexary_history as hh
from vt.monitor.db import RecordingDB
from vt.ref import mpt
from vt.ref.mpt import RefTrie

ID = "C02"
LEVEL = "exploration"
RULE = (
    "case = one generated history replayed on the real trie with the canonical-root audit after "
    "every operation (also on the batch trie inside squash_changes), or one (key set, insertion "
    "order / deletion order) of the exhaustive order-independence scope, or one known-answer "
    "vector; evaluations = cases; distinct = distinct canonical trie shapes (values abstracted to "
    "embedded/hashed) audited; non-trivial = at least 2 stored keys"
)
ASSUMPTIONS = [
    "an operation that raised MissingTrieNode on an incomplete database did not happen (it is not part of the contents)",
    "reference construction vt/ref/mpt.py (anchored by 8 ethereum/tests vectors checked at start-up)",
    "keccak backend",
]
EXHAUSTIVE = {
    "quick": "every insertion order of every subset (size 2..4) of a 6-key universe, 2 value assignments",
    "thorough": "every insertion order of every subset (size 2..6) of a 6-key universe x 2 value "
                "assignments; every deletion order from the full 6-key set down to every subset of size >= 3",
}
# thorough tier: the repository's own tests replayed under this run-time contract
REPO_TESTS = {"files": ['tests/core/test_hexary_trie.py', 'tests/core/test_proof.py', 'tests/core/test_hexary_trie_walk.py'], "contracts": ["hexary_root_stored"]}
FLOORS = {
    "quick": {"root_audits": 30000, "node_rlp_31": 50, "node_rlp_32": 50, "node_rlp_33": 50,
              "feat_branch_value": 500, "feat_embedded_child": 500, "feat_extension": 500,
              "feat_short_root": 100, "feat_empty_key": 300, "orders": 1000, "kat": 8,
              "op_failed_missing_node": 100},
    "thorough": {"root_audits": 300000, "node_rlp_31": 500, "node_rlp_32": 500, "node_rlp_33": 500,
                 "feat_branch_value": 5000, "feat_embedded_child": 5000, "feat_extension": 5000,
                 "feat_short_root": 1000, "feat_empty_key": 3000, "orders": 20000, "kat": 8,
                 "op_failed_missing_node": 1000},
}

ORDER_KEYS = [b"", b"\x12", b"\x12\x34", b"\x12\x35", b"\x12\x34\x56", b"\x21\x34"]
ORDER_VALUES = [
    [b"a", b"b", b"c", b"d", b"e", b"f"],
    [b"A" * 40, b"b", b"C" * 32, b"D" * 31, b"E" * 29, b"F" * 33],
]


def observe(ctx, ref):
    for f in ref.features():
        ctx.count("feat_" + f)
    for _, node in ref.preorder():
        n = len(node.enc())
        if 30 <= n <= 33:
            ctx.count("node_rlp_%d" % n)
        elif n in (55, 56, 57):
            ctx.count("node_rlp_%d" % n)
    if len(ref.model) >= 2:
        ctx.shape(ref.shape())


class C02Runner(hh.Runner):
    def after_op(self, op):
        ref = hh.root_audit(self.trie, self.db.raw(), self.model, self.ctx)
        observe(self.ctx, ref)

    def after_batch_op(self, btrie, bmodel, op):
        # the batch trie is a HexaryTrie too: its root must be canonical for its contents
        ref = RefTrie(bmodel)
        if btrie.root_hash != ref.root_hash:
            raise Violation("root-canonical", "batch trie inside squash_changes: root_hash=%s, canonical root is %s"
                            % (hx(btrie.root_hash), hx(ref.root_hash)))
        self.ctx.count("root_audits_in_batch")


def run_order(case, ctx):
    """Insert the items in the given order (optionally delete some afterwards in the given
    order); the root must be the reference root of the resulting mapping at every step."""
    items = [(unhx(k), unhx(v)) for k, v in case["insert"]]
    db = RecordingDB()
    t = HexaryTrie(db, prune=case.get("prune", False))
    model = {}
    for k, v in items:
        cut(t.set, k, v)
        model[k] = v
        hh.root_audit(t, db.raw(), model, ctx, where="insertion order %r: " % [hx(a) for a, _ in items])
    for k in case.get("delete", []):
        k = unhx(k)
        cut(t.delete, k)
        model.pop(k, None)
        hh.root_audit(t, db.raw(), model, ctx, where="deletion order: ")
    ctx.count("orders")
    if len(model) >= 2:
        ctx.shape(RefTrie(model).shape())


def run_kat(case, ctx):
    name = case["name"]
    m, exp = mpt.KATS[name]
    if mpt.root(m).hex() != exp:
        raise RuntimeError("reference MPT disagrees with vector %s" % name)  # monitor error
    for order in (list(m.items()), list(reversed(list(m.items())))):
        for prune in (False, True):
            t = HexaryTrie({}, prune=prune)
            for k, v in order:
                cut(t.set, k, v)
            if t.root_hash.hex() != exp:
                raise Violation("root-known-answer", "ethereum/tests vector %s: root %s, expected %s"
                                % (name, t.root_hash.hex(), exp))
    ctx.count("kat")


def run_case(case, ctx):
    eng = case.get("engine")
    if eng == "hh":
        C02Runner(case, ctx).run()
    elif eng == "order":
        run_order(case, ctx)
    elif eng == "kat":
        run_kat(case, ctx)
    else:
        raise ValueError(eng)
    ctx.evaluated()


def shrink(case, monitor):
    if case.get("engine") == "hh":
        return shrink_list(sys.modules[__name__], case, monitor)
    return case


def order_scope(ctx):
    idx = 0
    maxsize = 4 if ctx.tier == "quick" else 6
    for vi, values in enumerate(ORDER_VALUES):
        kv = list(zip(ORDER_KEYS, values))
        for size in range(2, maxsize + 1):
            for subset in itertools.combinations(kv, size):
                for perm in itertools.permutations(subset):
                    if idx % ctx.nshards == ctx.shard:
                        yield {"engine": "order", "prune": bool(idx & 16),
                               "insert": [[k.hex(), v.hex()] for k, v in perm]}
                    idx += 1
        if ctx.tier == "thorough":
            # every deletion order from the full set down to each subset of size >= 3
            for ndel in range(1, 4):
                for dels in itertools.permutations(ORDER_KEYS, ndel):
                    if idx % ctx.nshards == ctx.shard:
                        yield {"engine": "order", "prune": bool(idx & 16),
                               "insert": [[k.hex(), v.hex()] for k, v in kv],
                               "delete": [k.hex() for k in dels]}
                    idx += 1


def run_shard(ctx):
    rnd = ctx.rnd
    mod = sys.modules[__name__]
    if ctx.shard == 0:
        for name in mpt.KATS:
            run_case_guarded(mod, {"engine": "kat", "name": name}, ctx)
    n = 900 if ctx.tier == "quick" else 6000
    maxops = 25 if ctx.tier == "quick" else 80
    for i in range(n):
        # every third history also attempts operations on an incomplete database: they fail
        # atomically (MissingTrieNode) or succeed, and the root must stay canonical afterwards
        if i % 5 == 3:
            case = hh.gen_threshold_history(rnd)
            ctx.count("threshold_histories")
        elif i % 25 == 24:
            case = hh.gen_bulk_history(rnd, ctx.tier)
            ctx.count("bulk_histories")
        else:
            case = hh.gen_history(rnd, rnd.randint(1, maxops), fail_p=0.1 if i % 3 == 2 else 0.0, sp_p=0.04, bad_p=0.02)
        if i < 2:
            ctx.sample(case)
        run_case_guarded(mod, case, ctx)
        if ctx.full:
            return
    for case in order_scope(ctx):
        run_case_guarded(mod, case, ctx)
        if ctx.full:
            return
