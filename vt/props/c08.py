"""C08 - traverse / traverse_from describe the canonical node at every nibble path.

Deciding monitor: for every generated trie the result of traverse(path) - annotated node, blank,
or TraversedPartialPath with all its fields and its simulated node - is compared with
vt.ref.mpt.RefTrie.locate(path) on paths aimed at the content (every prefix of every key,
extensions, a divergence at every position, all short nibble strings); traverse_from from every
node of a full walk is compared with traverse, and the reads it issues are counted at the
database boundary against the number of child hops the reference says the path crosses."""
import itertools
import random
import sys

from trie.exceptions import TraversedPartialPath
from trie.typing import Nibbles

from vt.core import Raised, Violation, cut, run_case_guarded, shrink_list
from vt.engines import hexary_history as hh
from vt.engines import hexary_static as hs
from vt.ref.mpt import RefTrie, annot

ID = "C08"
LEVEL = "exploration"
RULE = (
    "case = one trie (built by a short history, prune on/off) x the nibble paths aimed at it: every "
    "prefix of every stored key, each extended by 1-2 nibbles, divergences at every position, all "
    "nibble strings up to a length bound, and traverse_from from every node met by a full walk; plus "
    "generated histories (batches, aborts, root_hash reassignment) with root_node / traverse / "
    "traverse_from judged after every operation while the root moves; evaluations = tries + histories; distinct = distinct canonical shapes traversed; non-trivial = >= 2 keys"
)
ASSUMPTIONS = ["reference trie vt/ref/mpt.py locate(); a path ending exactly at the end of a leaf's suffix "
               "counts as ending inside the leaf (TraversedPartialPath with an empty simulated suffix), as the code documents"]
EXHAUSTIVE = {
    "quick": "per trie: all nibble strings of length <= 2 (every 8th trie: <= 3); every prefix of every key with 2 diverging alternatives",
    "thorough": "per trie: all nibble strings of length <= 3 (every 8th trie: <= 4); every prefix of every key with all 15 diverging alternatives",
}
FLOORS = {
    "quick": {"paths": 150000, "res_blank": 100000, "res_node": 1000, "res_partial_leaf": 4000,
              "res_partial_ext": 600, "traverse_from": 50000, "read_bound_checks": 50000,
              "simulated_ext_followed": 600, "moving_root_node_checks": 5000, "moving_after_batch": 500,
              "moving_in_batch": 500, "moving_root_reassigned": 300, "moving_traverse_from": 5000,
              "paths_in_other_sequence_types": 1, "prefix_plus_library_segment": 1},
    "thorough": {"paths": 1500000, "res_blank": 1000000, "res_node": 10000, "res_partial_leaf": 40000,
                 "res_partial_ext": 6000, "traverse_from": 500000, "read_bound_checks": 500000,
                 "simulated_ext_followed": 6000, "moving_root_node_checks": 50000, "moving_after_batch": 5000,
                 "moving_in_batch": 5000, "moving_root_reassigned": 3000, "moving_traverse_from": 50000,
                 "paths_in_other_sequence_types": 1, "prefix_plus_library_segment": 1},
}


def describe(res):
    """normalise the outcome of traverse/traverse_from to a comparable value"""
    if isinstance(res, Raised):
        e = res.exc
        return ("partial", hs.pub(e.node), tuple(int(x) for x in e.nibbles_traversed),
                tuple(int(x) for x in e.untraversed_tail), hs.pub(e.simulated_node))
    return ("node", hs.pub(res))


def expected(ref, p):
    loc = ref.locate(p)
    if loc[0] == "blank":
        return ("node", annot(None))
    if loc[0] == "node":
        return ("node", annot(loc[1]))
    _, node, i, rem = loc
    if node.kind == "leaf":
        sim = ((), node.value, tuple(node.path[len(rem):]), "LEAF")
    else:
        sim = ((tuple(node.path[len(rem):]),), b"", (), "EXTENSION")
    return ("partial", annot(node), tuple(p[:i]), tuple(rem), sim)


def _plain(x):
    if isinstance(x, (list, tuple)):
        return [_plain(i) for i in x]
    return bytes(x) if isinstance(x, (bytes, bytearray)) else x


def hops_below(ref, q, full):
    """number of child hops the canonical trie crosses from the node at q down path `full`"""
    return sum(1 for prefix, _ in ref.path_nodes(full) if len(prefix) > len(q))


def _array(p):
    from array import array
    return array("B", p)


def _memoryview(p):
    return memoryview(bytes(p))


def _deque(p):
    from collections import deque
    return deque(p)


def _userlist(p):
    from collections import UserList
    return UserList(p)


# a path is a Sequence[int] (trie.typing.NibblesInput): the forms a caller may hold one in
FORMS = [list, tuple, Nibbles, list, tuple, Nibbles, _deque, _userlist, _array, _memoryview]


def run_case(case, ctx):
    if case.get("engine") == "hh":
        return run_moving(case, ctx)
    t, db, model, ref = hs.build(case)
    rnd = random.Random(case.get("pseed", 0))
    alts = case.get("alts", 2)
    paths = set(hs.key_paths(rnd, ref, alts))
    for L in range(case.get("allpaths", 2) + 1):
        paths.update(itertools.product(range(16), repeat=L))
    # root_node == traverse(())
    rn = cut(lambda: t.root_node)
    if hs.pub(rn) != hs.pub(cut(t.traverse, ())) or hs.pub(rn) != annot(ref.tree):
        raise Violation("traverse-root-node", "root_node %r differs from traverse(()) / canonical root %r" % (hs.pub(rn), annot(ref.tree)))
    walk = {}
    for p in sorted(paths):
        db.reset_counts()
        form = FORMS[(len(p) + sum(p)) % len(FORMS)]
        res = cut(t.traverse, form(p), expect=(TraversedPartialPath,))
        if form not in (list, tuple, Nibbles):
            ctx.count("paths_in_other_sequence_types")
        got = describe(res)
        exp = expected(ref, p)
        if got != exp:
            raise Violation("traverse-" + exp[0] + ("-blank" if exp == ("node", annot(None)) else ""),
                            "traverse(%r) gave %r, canonical trie says %r" % (p, got, exp))
        ctx.count("paths")
        if exp[0] == "partial":
            ctx.count("res_partial_leaf" if exp[1][3] == "LEAF" else "res_partial_ext")
            if exp[1][3] == "EXTENSION":
                # the simulated node must be usable: following its single segment lands on the child
                sim = res.exc.simulated_node
                seg = sim.sub_segments[0]
                a = describe(cut(t.traverse_from, sim, seg, expect=(TraversedPartialPath,)))
                b = describe(cut(t.traverse, tuple(p) + tuple(seg), expect=(TraversedPartialPath,)))
                if a[:2] != b[:2]:
                    raise Violation("traverse-simulated-node", "traverse_from(simulated node at %r, %r) = %r, traverse says %r" % (p, tuple(seg), a, b))
                ctx.count("simulated_ext_followed")
        elif exp[1][3] == "BLANK":
            ctx.count("res_blank")
        else:
            ctx.count("res_node")
            walk[tuple(p)] = res
    # traverse_from from every node of the full walk
    for q, node in walk.items():
        if node.node_type.name == "BLANK":
            continue
        subs = {()}
        for k, _ in ref.items:
            if k[: len(q)] == q:
                rest = k[len(q):]
                js = range(len(rest) + 1)
                if len(rest) > 80:
                    # very long keys: both ends and a sample of the middle
                    js = sorted(set(range(12)) | set(range(len(rest) - 11, len(rest) + 1)) | set(rnd.sample(range(len(rest)), 16)))
                for j in js:
                    subs.add(rest[:j])
                    subs.add(rest[:j] + (rnd.randrange(16),))
                subs.add(rest + (1,))
        for s in node.sub_segments:
            subs.add(tuple(int(x) for x in s))
        # every sub-path is asked twice from the SAME node object: shallow-to-deep, then
        # deep-to-shallow - the node belongs to the caller and must come out of it unchanged
        for s in sorted(subs) + sorted(subs, reverse=True):
            db.reset_counts()
            form = FORMS[(len(s) + len(q) + sum(s)) % len(FORMS)]      # the segment as a list / tuple / Nibbles / other sequence
            a = describe(cut(t.traverse_from, node, form(s), expect=(TraversedPartialPath,)))
            reads = db.reads
            b = describe(cut(t.traverse, q + s, expect=(TraversedPartialPath,)))
            if a[0] == "partial":
                a = (a[0], a[1], q + a[2], a[3], a[4])
            if a != b:
                raise Violation("traverse-from", "traverse_from(node@%r, %r) = %r but traverse(%r) = %r" % (q, s, a, q + s, b))
            hops = hops_below(ref, q, q + s)
            if reads > hops:
                raise Violation("traverse-from-reads", "traverse_from(node@%r, %r) issued %d database reads for %d child hop(s)" % (q, s, reads, hops))
            ctx.count("traverse_from")
            ctx.count("read_bound_checks")
        # "prefix + segment" as a caller writes it: the prefix a plain tuple (or a Nibbles), the
        # segment the very object the library listed in sub_segments
        for seg in node.sub_segments:
            for pre in (q, Nibbles(q)):
                full = pre + seg
                if tuple(int(x) for x in full) != q + tuple(int(x) for x in seg):
                    raise Violation("traverse-from", "prefix + segment: %r + %r (a %s and the library's own sub-segment, a %s) gives %r" % (
                        q, tuple(seg), type(pre).__name__, type(seg).__name__, tuple(full)))
                a = describe(cut(t.traverse_from, node, seg, expect=(TraversedPartialPath,)))
                b = describe(cut(t.traverse, full, expect=(TraversedPartialPath,)))
                if a[0] == "partial":
                    a = (a[0], a[1], q + a[2], a[3], a[4])
                if a != b:
                    raise Violation("traverse-from", "traverse_from(node@%r, %r) = %r but traverse(prefix + segment) = %r" % (q, tuple(seg), a, b))
                ctx.count("prefix_plus_library_segment")
        fresh = cut(t.traverse, q, expect=(TraversedPartialPath,))
        if isinstance(fresh, Raised) or _plain(node.raw) != _plain(fresh.raw) or hs.pub(node) != hs.pub(fresh):
            raise Violation("traverse-from-mutated-node", "after the traverse_from calls the caller's node object for %r no longer equals traverse(%r): raw %r vs %r" % (
                q, q, _plain(node.raw), None if isinstance(fresh, Raised) else _plain(fresh.raw)))
        ctx.count("caller_node_unchanged_checks")
    ctx.evaluated()
    ctx.shape((ref.shape(), case.get("prune")), len(model) >= 2)
    for f in ref.features():
        ctx.count("feat_" + f)


# ------------------------------------------------------------------ moving roots
class MovingRootRunner(hh.Runner):
    """The same judgements while the root MOVES: after every operation of a generated history
    (plain set / delete, inside an open squash_changes block, after its commit or abort) and
    after pointing a non-pruning trie at one of its earlier roots by assigning root_hash,
    root_node, traverse(()) and the canonical root must agree, traverse_from(root_node, seg)
    must equal traverse(seg), and a sample of content-aimed paths must be described as the
    reference describes them.  root_node is therefore always read BEFORE the next change too."""

    def __init__(self, case, ctx):
        super().__init__(case, ctx)
        self.roots = []

    def observe(self, trie, model, where):
        ref = RefTrie(model)
        rn = cut(lambda: trie.root_node)
        tv = cut(trie.traverse, ())
        if hs.pub(rn) != hs.pub(tv) or hs.pub(rn) != annot(ref.tree):
            raise Violation("traverse-root-node", "%sroot_node %r, traverse(()) %r, canonical root %r" % (
                where, hs.pub(rn), hs.pub(tv), annot(ref.tree)))
        self.ctx.count("moving_root_node_checks")
        for seg in rn.sub_segments:
            seg = tuple(int(x) for x in seg)
            a = describe(cut(trie.traverse_from, rn, seg, expect=(TraversedPartialPath,)))
            b = describe(cut(trie.traverse, seg, expect=(TraversedPartialPath,)))
            exp = expected(ref, seg)
            if a != b or b != exp:
                raise Violation("traverse-from", "%straverse_from(root_node, %r) = %r, traverse = %r, canonical trie says %r" % (
                    where, seg, a, b, exp))
            self.ctx.count("moving_traverse_from")
        paths = hs.key_paths(self.rnd, ref, 1)
        if len(paths) > 10:
            paths = self.rnd.sample(paths, 10)
        for p in paths:
            got = describe(cut(trie.traverse, p, expect=(TraversedPartialPath,)))
            exp = expected(ref, p)
            if got != exp:
                raise Violation("traverse-" + exp[0], "%straverse(%r) gave %r, canonical trie says %r" % (where, p, got, exp))
            self.ctx.count("moving_paths")

    def after_op(self, op):
        self.observe(self.trie, self.model, "after %s: " % op[0])
        if op[0] == "batch":
            self.ctx.count("moving_after_batch")
        if not self.prune:
            self.roots.append((self.trie.root_hash, dict(self.model)))
            if len(self.roots) > 1 and self.rnd.random() < 0.3:
                # point the trie at an earlier root (public attribute), look, and come back
                old_root, old_model = self.rnd.choice(self.roots[:-1])
                cur = self.trie.root_hash
                self.trie.root_hash = old_root
                self.observe(self.trie, old_model, "after assigning an earlier root to root_hash: ")
                self.trie.root_hash = cur
                self.observe(self.trie, self.model, "after assigning the latest root back to root_hash: ")
                self.ctx.count("moving_root_reassigned")
        if len(self.model) >= 2:
            self.ctx.shape(("moving", RefTrie(self.model).shape(), self.prune))

    def after_batch_op(self, btrie, bmodel, op):
        self.observe(btrie, bmodel, "batch trie inside an open squash_changes block: ")
        self.observe(self.trie, self.model, "outer trie while a batch is open: ")
        self.ctx.count("moving_in_batch")


def run_moving(case, ctx):
    MovingRootRunner(case, ctx).run()
    ctx.evaluated()


def shrink(case, monitor):
    field = "ops" if case.get("engine") == "hh" else "hist"
    return shrink_list(sys.modules[__name__], case, monitor, field=field)


def run_shard(ctx):
    rnd = ctx.rnd
    mod = sys.modules[__name__]
    n = 130 if ctx.tier == "quick" else 1300
    for i in range(n):
        bulk = i % 20 == 19
        case = hs.gen_build(rnd, maxkeys=60, bulk=True) if bulk else hs.gen_build(rnd, maxkeys=10 if ctx.tier == "quick" else 16)
        if bulk:
            ctx.count("bulk_tries")
        case["pseed"] = rnd.randrange(1 << 30)
        case["alts"] = 2 if ctx.tier == "quick" else 15
        base = 2 if ctx.tier == "quick" else 3
        case["allpaths"] = base + (1 if i % 8 == 0 else 0)
        if i == 1:
            ctx.sample(case)
        run_case_guarded(mod, case, ctx)
        if ctx.full:
            return
    # the same judgements while the root moves (histories with batches, aborts, root reassignment)
    for i in range(60 if ctx.tier == "quick" else 600):
        case = hh.gen_history(rnd, rnd.randint(2, 16 if ctx.tier == "quick" else 40), batch_p=0.3)
        if i == 0:
            ctx.sample(case)
        run_case_guarded(mod, case, ctx)
        if ctx.full:
            return
