"""C07 - missing nodes: operations fail atomically and report the truth.

Deciding monitors (fault enumeration over subsets of missing node bodies): every operation is
first run on a COMPLETE twin copy (expected result), then on the real database with a set H of
node bodies taken away, inside the retry loop the statement describes: on MissingTrieNode /
MissingTraversalNode the reported hash must be absent, must lie on the requested path of the
reference trie (for delete also the single sibling normalisation has to read), root / key /
nibble prefix must be right, root + database + reference counts must be untouched (mutation
events seen at the database boundary during a failed call are counted), the same hash is never
asked twice;
then only the reported body is supplied and the call retried until it returns - with the twin's
result and the twin's resulting database."""
import itertools
import random
import sys

from trie import HexaryTrie
from trie.exceptions import MissingTraversalNode, MissingTrieNode, TraversedPartialPath

from vt import gen
from vt.core import Raised, Violation, cut, hx, run_case_guarded, shrink_list, unhx
from vt.engines import hexary_history as hh
from vt.engines import hexary_static as hs
from vt.ref.mpt import BLANK_ROOT, RefTrie, nibs

ID = "C07"
LEVEL = "fault_enumeration"
RULE = (
    "case = (trie built by a short history, prune on/off, direct or inside squash_changes) x one "
    "subset H of its hashed node bodies removed (every subset for small tries, three densities and "
    "'everything' otherwise) x a sequence of get/exists/set/delete/set-to-empty/traverse/traverse_from "
    "calls each run to completion by the supply-and-retry loop; evaluations = calls run to completion; "
    "distinct = distinct (canonical shape, |H|, operation, key class); non-trivial = at least one "
    "Missing* exception was raised on the way"
)
ASSUMPTIONS = [
    "for delete / set(k, b'') 'on the requested path' includes the children of branch nodes on the path "
    "(the single remaining sibling must be read to normalise the branch)",
    "prefix=None is accepted for set/delete (the statement requires the nibble path for lookups and traversals)",
    "twin run on a complete copy of the same database is the expected result",
]
EXHAUSTIVE = {
    "quick": "every subset of the reachable hashed nodes for tries with <= 5 of them",
    "thorough": "every subset of the reachable hashed nodes for tries with <= 8 of them",
}
FLOORS = {
    "quick": {"calls_completed": 1, "missing_raised": 1, "missing_lookup_prefix_checked": 1,
              "missing_on_sibling": 1, "state_unchanged_checks": 1, "op_get": 1, "op_exists": 1, "op_set": 1,
              "op_delete": 1, "op_sete": 1, "op_traverse": 1, "op_traverse_from": 1, "in_batch_calls": 1,
              "prune_calls": 1, "subsets_exhaustive": 1, "multi_round_retries": 1, "savepoint_attempts": 1},
}
FLOORS["thorough"] = dict(FLOORS["quick"])

OPS = ["get", "exists", "set", "delete", "sete", "traverse", "traverse_from"]


def describe_traverse(res):
    if isinstance(res, Raised):
        e = res.exc
        return ("partial", hs.pub(e.node), tuple(int(x) for x in e.nibbles_traversed), tuple(int(x) for x in e.untraversed_tail))
    return ("node", hs.pub(res))


def path_info(ref, key_nibbles, ref_after=None):
    """hashes on the requested path with their nibble positions, and the 'near' hashes: the
    children of those branch nodes on the path that the operation really has to collapse
    (ref_after = reference trie of the contents after the operation: a branch that is still a
    branch there needs no normalisation, so none of its other children has to be read)"""
    on = {}
    near = set()
    for prefix, node in ref.path_nodes(key_nibbles):
        if node is ref.tree or node.hashed():
            on.setdefault(node.hash(), set()).add(tuple(prefix))
        if node.kind == "branch" and ref_after is not None:
            loc = ref_after.locate(tuple(prefix))
            still_branch = loc[0] == "node" and loc[1].kind == "branch"
            if not still_branch:
                for c in node.children:
                    if c is not None and c.hashed():
                        near.add(c.hash())
    return on, near


def do_op(trie, op, ctx_nodes=None):
    """run one operation on a trie (real or twin); returns a comparable result"""
    kind = op[0]
    if kind == "get":
        return trie.get(unhx(op[1]))
    if kind == "exists":
        return trie.exists(unhx(op[1]))
    if kind == "set":
        trie.set(unhx(op[1]), unhx(op[2]))
        return trie.root_hash
    if kind == "delete":
        trie.delete(unhx(op[1]))
        return trie.root_hash
    if kind == "sete":
        trie.set(unhx(op[1]), b"")
        return trie.root_hash
    if kind == "traverse":
        try:
            return ("node", hs.pub(trie.traverse(tuple(op[1]))))
        except TraversedPartialPath as e:
            return ("partial", hs.pub(e.node), tuple(int(x) for x in e.nibbles_traversed), tuple(int(x) for x in e.untraversed_tail))
    if kind == "traverse_from":
        start = ctx_nodes
        try:
            return ("node", hs.pub(trie.traverse_from(start, tuple(op[2]))))
        except TraversedPartialPath as e:
            return ("partial", hs.pub(e.node), tuple(int(x) for x in e.nibbles_traversed), tuple(int(x) for x in e.untraversed_tail))
    raise ValueError(kind)


def run_case(case, ctx):
    prune = case["prune"]
    in_batch = case.get("in_batch", False)
    t, db, model, ref = hs.build(case)
    db.record = True
    reach = sorted(db.raw())  # for a pruning trie == reachable; for non-pruning includes garbage
    reach_live = sorted(ref.reach())
    if case["hide"] == "all":
        hide = list(reach_live)
    else:
        hide = [reach_live[i] for i in case["hide"] if i < len(reach_live)]
    db.hide(hide)
    nh = len(hide)
    shape = ref.shape()

    def snap(tr):
        d = tr.db.copy() if in_batch else db.snapshot()
        return (tr.root_hash, d, hh.nz(dict(tr.ref_count)) if tr.is_pruning else None)

    def run_ops(main, twin, twin_db_complete):
        nonlocal model, ref
        asked_total = 0
        for op in case["ops"]:
            kind = op[0]
            ctx.count("op_" + kind)
            start_node = None
            if kind in ("traverse", "traverse_from"):
                keyn = tuple(op[1]) + (tuple(op[2]) if kind == "traverse_from" else ())
            else:
                keyn = nibs(unhx(op[1]))
            if kind == "traverse_from":
                # the start node comes from the complete twin
                try:
                    start_node = twin.traverse(tuple(op[1]))
                except TraversedPartialPath:
                    continue
                if start_node.node_type.name == "BLANK":
                    continue
            ref_after = None
            if kind in ("delete", "sete") and unhx(op[1]) in model:
                m_after = dict(model)
                m_after.pop(unhx(op[1]))
                ref_after = RefTrie(m_after)
            on, near = path_info(ref, keyn, ref_after)
            try:
                expected = do_op(twin, op, start_node)
            except Exception as e:  # the twin itself fails: not this property's business
                ctx.count("twin_failed")
                return
            if in_batch and kind in ("set", "delete", "sete") and (case.get("pseed", 0) + len(op[1])) % 3 == 0:
                # the caller first tries the operation inside a savepoint (a block opened on the
                # batch trie): a write that succeeds, then the operation, which may hit an absent
                # node; whatever happens the savepoint is abandoned - and nothing may have happened
                before_sp = snap(main)
                outer_rc_before = hh.nz(dict(t.ref_count)) if prune else None

                def savepoint():
                    try:
                        with main.squash_changes() as sp:
                            sp.set(b"\x00savepoint", b"s" * 40)
                            do_op(sp, op, start_node)
                            raise hh.Boom()
                    except (hh.Boom, MissingTrieNode):
                        pass

                cut(savepoint)
                if snap(main) != before_sp:
                    a_, b_ = before_sp, snap(main)
                    what = "root" if a_[0] != b_[0] else ("database" if a_[1] != b_[1] else "reference counts")
                    raise Violation("missing-refcount-changed" if what == "reference counts" else "missing-db-changed",
                                    "%s(%s): an abandoned savepoint (left by an exception) changed the %s of the batch trie" % (kind, op[1], what))
                if prune and hh.nz(dict(t.ref_count)) != outer_rc_before:
                    raise Violation("missing-refcount-changed", "%s(%s): an abandoned savepoint inside the batch changed the reference counts of the OUTER trie "
                                    "(the batch shares them)" % (kind, op[1]))
                ctx.count("savepoint_attempts")
            asked = []
            rounds = 0
            hidden_at_start = len(db.hidden)
            while True:
                rounds += 1
                before = snap(main)
                ev0 = len(db.events)
                res = cut(do_op, main, op, start_node, expect=(MissingTrieNode, MissingTraversalNode))
                if not isinstance(res, Raised):
                    break
                e = res.exc
                ctx.count("missing_raised")
                h = bytes(e.missing_node_hash)
                where = "%s(%s) with %d bodies missing: " % (kind, op[1], len(db.hidden))
                if kind in ("traverse", "traverse_from") and not isinstance(e, MissingTraversalNode):
                    raise Violation("missing-exception-class", where + "raised %s" % type(e).__name__)
                if kind not in ("traverse", "traverse_from") and not isinstance(e, MissingTrieNode):
                    raise Violation("missing-exception-class", where + "raised %s" % type(e).__name__)
                if h not in db.hidden:
                    raise Violation("missing-hash-present", where + "reports %s which is %s" % (
                        hx(h), "present in the database" if h in db.raw() else "not a node of this trie"))
                if kind in ("delete", "sete"):
                    if h not in on and h not in near:
                        raise Violation("missing-hash-off-path", where + "reports %s which is neither on the key's path nor a sibling needed for normalisation" % hx(h))
                    if h not in on:
                        ctx.count("missing_on_sibling")
                else:
                    if h not in on:
                        raise Violation("missing-hash-off-path", where + "reports %s which does not lie on the requested path" % hx(h))
                if isinstance(e, MissingTrieNode):
                    if bytes(e.root_hash) != main.root_hash:
                        raise Violation("missing-root-hash", where + "reports root %s, current root is %s" % (hx(bytes(e.root_hash)), hx(main.root_hash)))
                    if bytes(e.requested_key) != unhx(op[1]):
                        raise Violation("missing-requested-key", where + "reports requested key %s" % hx(bytes(e.requested_key)))
                    got_prefix = None if e.prefix is None else tuple(int(x) for x in e.prefix)
                else:
                    got_prefix = tuple(int(x) for x in e.nibbles_traversed)
                    if kind == "traverse_from":
                        got_prefix = tuple(op[1]) + got_prefix
                if kind in ("get", "exists", "traverse", "traverse_from"):
                    if got_prefix is None or got_prefix not in on[h]:
                        raise Violation("missing-prefix", where + "reports nibble path %r to the missing node, the canonical trie has it at %r" % (
                            got_prefix, sorted(on[h])))
                    ctx.count("missing_lookup_prefix_checked")
                elif got_prefix is not None and h in on and got_prefix not in on[h]:
                    raise Violation("missing-prefix", where + "reports nibble path %r, the canonical trie has the node at %r" % (got_prefix, sorted(on[h])))
                after = snap(main)
                if after[0] != before[0]:
                    raise Violation("missing-root-changed", where + "failed call changed the root hash")
                if after[1] != before[1]:
                    raise Violation("missing-db-changed", where + "failed call changed the database (%d entries differ)" % len(set(before[1].items()) ^ set(after[1].items())))
                if after[2] != before[2]:
                    raise Violation("missing-refcount-changed", where + "failed call changed the reference counts")
                # mutation events during a failed call are only counted: what the statement
                # requires is that the database is unchanged afterwards (checked above); re-writing
                # an entry with the bytes it already holds is not a violation
                muts = [ev for ev in db.events[ev0:] if ev[0] in ("set", "del", "pop", "clear")]
                if muts:
                    ctx.count("mutation_events_during_failed_calls", len(muts))
                ctx.count("state_unchanged_checks")
                if h in asked:
                    raise Violation("missing-asked-twice", where + "asked for %s twice" % hx(h))
                asked.append(h)
                if rounds > hidden_at_start + 1:
                    raise Violation("missing-retry-diverges", where + "retry loop needs more than |H|+1 = %d rounds" % (hidden_at_start + 1))
                db.supply(h)
            if rounds > 2:
                ctx.count("multi_round_retries")
            if res != expected:
                raise Violation("missing-result-differs", "%s(%s) after %d supplied node(s) gives %r, complete database gives %r" % (
                    kind, op[1], len(asked), res if not isinstance(res, bytes) else hx(res), expected if not isinstance(expected, bytes) else hx(expected)))
            if not in_batch and not same_db(db, twin_db_complete()):
                raise Violation("missing-state-differs", "after %s(%s) completed the database differs from the complete-database twin" % (kind, op[1]))
            if main.is_pruning and hh.nz(dict(main.ref_count)) != hh.nz(dict(twin.ref_count)):
                raise Violation("missing-state-differs", "after %s(%s) completed the reference counts differ from the complete-database twin" % (kind, op[1]))
            ctx.count("calls_completed")
            if in_batch:
                ctx.count("in_batch_calls")
            if prune:
                ctx.count("prune_calls")
            ctx.evaluated()
            kc = "stored" if (kind not in ("traverse", "traverse_from") and unhx(op[1]) in model) else "other"
            ctx.shape((shape, nh, kind, kc, in_batch, prune), bool(asked))
            if kind == "set":
                model[unhx(op[1])] = unhx(op[2])
                ref = RefTrie(model)
            elif kind in ("delete", "sete"):
                model.pop(unhx(op[1]), None)
                ref = RefTrie(model)

    cdb = db.complete()
    ct = HexaryTrie(cdb, t.root_hash, prune=prune, ref_count=dict_to_rc(t) if prune else None)
    if not in_batch:
        run_ops(t, ct, lambda: cdb)
    else:
        def both():
            with t.squash_changes() as b:
                with ct.squash_changes() as cb:
                    run_ops(b, cb, lambda: None)
        cut(both)
        if t.root_hash != ct.root_hash:
            raise Violation("missing-result-differs", "root after the committed batch differs from the complete-database twin")
        if not same_db(db, cdb):
            raise Violation("missing-state-differs", "database after the committed batch differs from the complete-database twin")
        if prune and hh.nz(dict(t.ref_count)) != hh.nz(dict(ct.ref_count)):
            raise Violation("missing-state-differs", "reference counts after the committed batch differ from the complete-database twin")


def same_db(db, twin_db):
    """main database == twin database on every key whose body is not (still) taken away: a body
    that was never supplied cannot be pruned by the main run, and may have been re-created only
    inside a batch's buffer"""
    hidden = db.hidden
    return db.raw() == {k: v for k, v in twin_db.items() if k not in hidden}


def dict_to_rc(t):
    from collections import defaultdict
    d = defaultdict(int)
    d.update(dict(t.ref_count))
    return d


def shrink(case, monitor):
    mod = sys.modules[__name__]
    c = shrink_list(mod, case, monitor, field="ops")
    return c


def gen_ops(rnd, model, ref, n):
    ops = []
    keys = set(model)
    pool = gen.value_pool(rnd, 3)
    probes = gen.probe_keys(rnd, model, extra=3)
    for _ in range(n):
        kind = rnd.choice(OPS)
        if kind in ("traverse", "traverse_from"):
            if ref.items:
                k = rnd.choice(ref.items)[0]
                path = k[: rnd.randint(0, len(k))] + tuple(rnd.randrange(16) for _ in range(rnd.choice([0, 0, 1])))
            else:
                path = (rnd.randrange(16),)
            if kind == "traverse":
                ops.append(["traverse", list(path)])
            else:
                cutp = rnd.randint(0, len(path))
                ops.append(["traverse_from", list(path[:cutp]), list(path[cutp:])])
            continue
        k = rnd.choice(sorted(keys)) if keys and rnd.random() < 0.5 else rnd.choice(probes)
        if kind == "set":
            ops.append(["set", k.hex(), rnd.choice(pool).hex()])
            keys.add(k)
        else:
            ops.append([kind, k.hex()])
            if kind in ("delete", "sete"):
                keys.discard(k)
    return ops


def run_shard(ctx):
    rnd = ctx.rnd
    mod = sys.modules[__name__]
    ntries = 200 if ctx.tier == "quick" else 1500
    limit = 5 if ctx.tier == "quick" else 8
    for i in range(ntries):
        base = hs.gen_build(rnd, maxkeys=rnd.choice([2, 4, 8, 12]), deletes=True) if rnd.random() > 0.04 else \
            hs.gen_build(rnd, maxkeys=60, deletes=True, bulk=True)
        # find out the hashed reachable nodes (from the reference of the resulting model)
        model = {}
        for op in base["hist"]:
            if op[0] == "set":
                model[unhx(op[1])] = unhx(op[2])
            else:
                model.pop(unhx(op[1]), None)
        ref = RefTrie(model)
        nreach = len(ref.reach())
        if nreach == 0:
            continue
        subsets = []
        if nreach <= limit:
            for r in range(1, nreach + 1):
                subsets += [list(c) for c in itertools.combinations(range(nreach), r)]
            ctx.count("subsets_exhaustive", len(subsets))
        else:
            for dens in (0.2, 0.5, 0.8):
                for _ in range(3):
                    subsets.append([j for j in range(nreach) if rnd.random() < dens] or [rnd.randrange(nreach)])
            subsets.append("all")
        for hide in subsets:
            case = dict(base)
            case["hide"] = hide
            case["in_batch"] = rnd.random() < 0.3
            case["pseed"] = rnd.randrange(1 << 30)
            case["ops"] = gen_ops(rnd, model, ref, rnd.randint(3, 7))
            if i == 1 and len(ctx.samples) < 2:
                ctx.sample(case)
            run_case_guarded(mod, case, ctx)
            if ctx.full:
                return
