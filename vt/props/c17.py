"""C17 - ScratchDB buffers a batch and commits it atomically or not at all.

Deciding monitors: a two-dict model (wrapped contents + buffer) run in lock step with the real
ScratchDB over a RecordingDB; an online trace checker refuses every mutation event on the
wrapped database while the block is open; all action sequences up to a bound x pre-contents x
do_deletes x every exit position (normal, or the caller's exception after action i - an
Exception subclass, a non-Exception BaseException subclass, KeyboardInterrupt or GeneratorExit)
are enumerated."""
import itertools
import sys

from trie.utils.db import ScratchDB

from vt.core import Raised, Violation, cut, hx, run_case_guarded, shrink_list, unhx
from vt.monitor.db import RecordingDB, TraceViolation

ID = "C17"
LEVEL = "fault_enumeration"
RULE = (
    "case = (pre-existing wrapped contents, do_deletes, sequence of set/delete/read/membership/copy "
    "actions inside batch_commit, exit position: normal or exception after action i); enumerated "
    "exhaustively up to the bound in exhaustive_scope, random longer sequences beyond; distinct = "
    "distinct cases; non-trivial = at least one buffered write or delete"
)
ASSUMPTIONS = [
    "copy() is compared only on keys whose latest buffered action is not a delete (unstated otherwise)",
    "the wrapped database itself does not fail (C04/C05 inject failing commit writes)",
]
EXHAUSTIVE = {
    "quick": "all action sequences of length <= 3 over 3 keys x {set a, set b'' (the empty value), delete, read, in} x 4 "
             "pre-contents x do_deletes {F,T} x every exit position",
    "thorough": "length <= 4 over 3 keys x 5 actions, and length <= 6 over 2 keys x {set, delete, read}, "
                "x 4 pre-contents x do_deletes x every exit position",
}
FLOORS = {
    "quick": {"cases_commit": 5000, "cases_abort": 10000, "cases_abort_baseexception": 5000, "reads_checked": 20000,
              "read_through_after_delete": 1000, "open_block_events": 20000, "reads_of_buffered_empty_value": 500, "blocks_inside_except_handler": 5000, "big_batches": 10,
              "actions_before_block": 2000},
    "thorough": {"cases_commit": 100000, "cases_abort": 300000, "cases_abort_baseexception": 100000, "reads_checked": 500000,
                 "read_through_after_delete": 20000, "open_block_events": 500000,
                 "reads_of_buffered_empty_value": 5000, "blocks_inside_except_handler": 50000, "big_batches": 50},
}

KEYS = [b"k0", b"k1", b"k2"]
PRE = [{}, {"k0": "w0"}, {"k0": "w0", "k1": "w1"}, {"k0": "w0", "k1": "w1", "k2": "w2"}]
DEL = object()


class Boom(Exception):
    pass


class BoomBase(BaseException):
    """a caller exception that is not an Exception (cf. asyncio.CancelledError, SystemExit)"""


# ways of leaving the block exceptionally; case["exc"] indexes this list (default 0)
class FalsyBoom(Exception):
    """an exception whose instance is falsy (`if exc:` differs from `if exc is not None:`)"""

    def __bool__(self):
        return False

    def __len__(self):
        return 0


EXITS = [Boom, BoomBase, KeyboardInterrupt, GeneratorExit, FalsyBoom, KeyError]


def run_case(case, ctx):
    W = {k.encode(): v.encode() for k, v in case["pre"].items()}
    wrapped = RecordingDB(W)
    sdb = ScratchDB(wrapped)
    dd = case["do_deletes"]
    actions = case["actions"]
    exit_at = case["exit"]
    exc_cls = EXITS[case.get("exc", 0) % len(EXITS)]
    C = {}
    st = {"open": False, "events": 0}

    def spec(db, op, key, value):
        if st["open"]:
            st["events"] += 1
            if op in ("set", "del", "pop", "clear"):
                raise TraceViolation("scratch-wrapped-mutated-while-open",
                                     "wrapped database received %s(%s) while the batch was open" % (op, hx(key)))

    wrapped.checkers.append(spec)

    def visible(k):
        if k in C and C[k] is not DEL:
            return C[k]
        return W.get(k)

    npre = min(case.get("before_block", 0), len(actions), exit_at if exit_at is not None else len(actions))

    def act(i, a):
        """one action on the ScratchDB, mirrored on the model"""
        k = a[1].encode()
        if a[0] == "set":
            v = a[2].encode()
            sdb[k] = v
            C[k] = v
        elif a[0] == "del":
            del sdb[k]
            C[k] = DEL

    # the ScratchDB buffers from construction: the first `before_block` writes / deletes are
    # made BEFORE the batch_commit block is entered and belong to the batch all the same
    for i in range(npre):
        if actions[i][0] in ("set", "del"):
            act(i, actions[i])
            ctx.count("actions_before_block")
            if wrapped.raw() != W:
                raise Violation("scratch-wrapped-mutated-while-open", "wrapped contents changed by a buffered action before the block")

    def block():
        with sdb.batch_commit(do_deletes=dd):
            st["open"] = True
            try:
                for i, a in enumerate(actions):
                    if i < npre and a[0] in ("set", "del"):
                        continue
                    if exit_at == i:
                        raise exc_cls()
                    k = a[1].encode()
                    if a[0] == "set":
                        v = a[2].encode()
                        sdb[k] = v
                        C[k] = v
                    elif a[0] == "del":
                        del sdb[k]
                        C[k] = DEL
                    elif a[0] == "get":
                        exp = visible(k)
                        try:
                            got = sdb[k]
                        except KeyError:
                            got = None
                        if exp == b"":
                            ctx.count("reads_of_buffered_empty_value")
                        if got != exp:
                            raise Violation("scratch-read", "read of %s inside the batch gave %r, model says %r "
                                            "(buffer %r)" % (k, got, exp, "deleted" if C.get(k) is DEL else C.get(k)))
                        ctx.count("reads_checked")
                        if C.get(k) is DEL and k in W:
                            ctx.count("read_through_after_delete")
                    elif a[0] == "in":
                        exp = visible(k) is not None
                        got = k in sdb
                        if bool(got) != exp:
                            raise Violation("scratch-read", "(%s in scratch)=%r, model says %r" % (k, got, exp))
                        ctx.count("reads_checked")
                        if C.get(k) is DEL and k in W:
                            ctx.count("read_through_after_delete")
                    elif a[0] == "copy":
                        got = sdb.copy()
                        for kk in KEYS:
                            if C.get(kk) is DEL:
                                continue
                            if got.get(kk) != visible(kk):
                                raise Violation("scratch-copy", "copy()[%s]=%r, model says %r" % (kk, got.get(kk), visible(kk)))
                        ctx.count("reads_checked")
                    if wrapped.raw() != W:
                        raise Violation("scratch-wrapped-mutated-while-open", "wrapped contents changed inside the block")
                if exit_at is not None and exit_at >= len(actions):
                    raise exc_cls()
            finally:
                st["open"] = False

    def block_in_handler():
        # the same block, entered while the caller is handling an unrelated exception
        # (sys.exc_info() is not empty although nothing goes wrong inside the block)
        try:
            raise RuntimeError("unrelated exception being handled by the caller")
        except RuntimeError:
            return block()

    if case.get("in_handler"):
        ctx.count("blocks_inside_except_handler")
    res = cut(block_in_handler if case.get("in_handler") else block, expect=tuple(EXITS))
    ctx.count("open_block_events", st["events"])
    if wrapped.pending_trace_violation is not None:
        tv = wrapped.pending_trace_violation
        raise Violation(tv.monitor, tv.detail)
    if exit_at is not None:
        if not isinstance(res, Raised):
            raise Violation("scratch-swallowed-exception", "the caller's exception did not propagate out of batch_commit")
        if wrapped.raw() != W:
            raise Violation("scratch-abort-changed-wrapped", "wrapped database changed by a batch left by an exception: %r -> %r" % (W, wrapped.raw()))
        ctx.count("cases_abort")
        if exc_cls is not Boom:
            ctx.count("cases_abort_baseexception")
    else:
        exp = dict(W)
        for k, v in C.items():
            if v is not DEL:
                exp[k] = v
            elif dd:
                exp.pop(k, None)
        if wrapped.raw() != exp:
            raise Violation("scratch-commit", "after commit (do_deletes=%r) wrapped is %r, model says %r" % (dd, wrapped.raw(), exp))
        ctx.count("cases_commit")
    # the buffer is empty afterwards: reads equal the wrapped database, an empty batch changes nothing
    now = dict(wrapped.raw())
    for k in KEYS:
        inn = cut(sdb.__contains__, k)
        if bool(inn) != (k in now):
            raise Violation("scratch-buffer-not-empty", "after the batch (%s in scratch)=%r but wrapped has it: %r" % (k, inn, k in now))
        r = cut(sdb.__getitem__, k, expect=(KeyError,))
        got = None if isinstance(r, Raised) else r
        if got != now.get(k):
            raise Violation("scratch-buffer-not-empty", "after the batch scratch[%s]=%r, wrapped has %r" % (k, got, now.get(k)))

    # a later batch on the SAME object with default arguments: deletes were not requested, so a
    # buffered delete of an existing key must not reach the wrapped database - whatever the
    # earlier batch asked for
    victim = next((k for k in KEYS if k in now), None)
    if victim is not None:
        def default_batch():
            with sdb.batch_commit():
                del sdb[victim]

        cut(default_batch)
        if wrapped.raw() != now:
            raise Violation("scratch-commit", "a later batch_commit() with default arguments applied a buffered delete (do_deletes of the earlier batch was %r)" % dd)
        ctx.count("default_argument_batches")

    def empty():
        with sdb.batch_commit(do_deletes=True):
            pass

    cut(empty)
    if wrapped.raw() != now:
        raise Violation("scratch-buffer-not-empty", "a following empty batch changed the wrapped database (stale buffer applied)")
    ctx.evaluated()
    ctx.shape(case, any(a[0] in ("set", "del") for a in actions[: exit_at if exit_at is not None else len(actions)]))


def shrink(case, monitor):
    return shrink_list(sys.modules[__name__], case, monitor, field="actions")


def enumerate_cases(ctx, menu, maxlen, start_idx=0):
    idx = start_idx
    for L in range(0, maxlen + 1):
        for seq in itertools.product(menu, repeat=L):
            for pre in PRE:
                for dd in (False, True):
                    for ex in [None] + list(range(L + 1)):
                        if idx % ctx.nshards == ctx.shard:
                            # the kind of exception rotates over the enumeration (Exception subclass,
                            # BaseException subclass, KeyboardInterrupt, GeneratorExit)
                            yield {"pre": pre, "do_deletes": dd, "actions": [list(a) for a in seq], "exit": ex,
                                   "exc": (idx // ctx.nshards) % len(EXITS),
                                   "in_handler": (idx // ctx.nshards) % 5 == 0,
                                   "before_block": (idx // ctx.nshards) % 3 if (idx // ctx.nshards) % 7 == 0 else 0}
                        idx += 1


def run_shard(ctx):
    rnd = ctx.rnd
    mod = sys.modules[__name__]
    menu5 = []
    for k in ("k0", "k1", "k2"):
        # the second value is the EMPTY byte string: a legitimate value that is falsy
        menu5 += [("set", k, "a"), ("set", k, ""), ("del", k), ("get", k), ("in", k)]
    # writing back exactly the value the wrapped database already holds under that key
    menu_back = [("set", "k0", "w0"), ("set", "k1", "w1")]
    n = 0
    for case in enumerate_cases(ctx, menu5 + menu_back, 3 if ctx.tier == "quick" else 4):
        if n == 500:
            ctx.sample(case)
        n += 1
        run_case_guarded(mod, case, ctx)
        if ctx.full:
            return
    if ctx.tier == "thorough":
        menu3 = []
        for k in ("k0", "k1"):
            menu3 += [("set", k, "a"), ("del", k), ("get", k)]
        menu3 += [("set", "k0", "")]
        for case in enumerate_cases(ctx, menu3, 6):
            run_case_guarded(mod, case, ctx)
            if ctx.full:
                return
    # SCALE: a few batches with well over a thousand buffered entries (writes and deletes over
    # hundreds of keys that the wrapped database partly holds)
    for i in range(3 if ctx.tier == "quick" else 12):
        nk = rnd.randint(600, 900)
        seq = []
        for _ in range(rnd.randint(1500, 2500)):
            k = "k%d" % rnd.randrange(nk)
            r = rnd.random()
            seq.append(["set", k, rnd.choice(["a", "b", ""])] if r < 0.55 else (["del", k] if r < 0.9 else ["get", k]))
        case = {"pre": {"k%d" % j: "w%d" % j for j in range(0, nk, 2)}, "do_deletes": bool(i % 2), "actions": seq,
                "exit": None if i % 3 else len(seq), "exc": i % len(EXITS)}
        run_case_guarded(mod, case, ctx)
        ctx.count("big_batches")
        if ctx.full:
            return
    # random longer sequences, including copy()
    menu = menu5 + [("copy", "k0")] + [("set", k, "b") for k in ("k0", "k1", "k2")] + menu_back + [("set", "k2", "w2")]
    for i in range(10000 if ctx.tier == "quick" else 60000):
        L = rnd.randint(4, 12)
        seq = [list(rnd.choice(menu)) for _ in range(L)]
        case = {"pre": rnd.choice(PRE), "do_deletes": bool(rnd.randrange(2)), "actions": seq,
                "exit": rnd.choice([None, None] + list(range(L + 1))), "exc": rnd.randrange(len(EXITS)),
                "in_handler": rnd.random() < 0.2, "before_block": rnd.choice([0, 0, 0, 1, 2, 3])}
        if i == 0:
            ctx.sample(case)
        run_case_guarded(mod, case, ctx)
        if ctx.full:
            return
