"""C06 - pruning is exact: the database holds precisely the live nodes, counts are true.

Deciding monitor: after every operation on a pruning trie born on an empty database, a
three-way audit: key set of the database == hashed nodes the REFERENCE trie of the model
reaches; reported ref_count == reference multiset == regenerate_ref_count()."""
import sys

from vt.core import run_case_guarded, shrink_list
from vt.engines import hexary_history as hh

ID = "C06"
LEVEL = "exploration"
RULE = (
    "case = one generated history on a pruning trie over an initially empty database (small value "
    "pools so identical sub-tries occur, threshold-sized values, no-op updates, direct operations "
    "mixed with committed and aborted squash_changes batches) with the exactness audit after every "
    "top-level operation; evaluations = histories; distinct = distinct canonical shapes audited; "
    "non-trivial = at least 2 stored keys"
)
ASSUMPTIONS = [
    "reference reachable-node multiset built from the dict model by vt/ref/mpt.py",
    "the trie is modified only through its own API; batches are not nested",
]
FLOORS = {
    "quick": {"prune_audits": 20000, "prune_audits_shared": 200, "batch_commit": 300,
              "batch_abort": 150, "noop_updates": 300},
    "thorough": {"prune_audits": 200000, "prune_audits_shared": 2000, "batch_commit": 3000,
                 "batch_abort": 1500, "noop_updates": 3000},
}


class C06Runner(hh.Runner):
    def after_op(self, op):
        if op[0] == "set" and False:
            pass
        ref = hh.prune_audit(self.trie, self.db.raw(), self.model, self.ctx)
        # an observer asks for counts by hash, also of nodes that have just died: they report 0
        # (or are simply absent), and asking changes nothing
        cur = set(ref.reach())
        dead = sorted(getattr(self, "prev_reach", set()) - cur)
        for h in dead[:3]:
            rc = self.trie.ref_count
            n = rc[h] if hasattr(rc, "__getitem__") and (h in rc or hasattr(rc, "default_factory")) else 0
            if n != 0:
                raise hh.Violation("prune-refcount", "a node that is no longer referenced reports count %r" % (n,))
            self.ctx.count("dead_node_counts_read")
        self.prev_reach = cur
        if len(self.model) >= 2:
            self.ctx.shape(ref.shape())

    def run(self):
        # count no-op updates (same value written again / absent key deleted) from the case
        m = {}
        for op in self.case["ops"]:
            subs = op[1] if op[0] == "batch" else [op]
            mm = dict(m)
            for o in subs:
                if o[0] in ("sp", "badset", "fail"):
                    continue
                k = bytes.fromhex(o[1])
                if o[0] == "set":
                    if mm.get(k) == bytes.fromhex(o[2]):
                        self.ctx.count("noop_updates")
                    mm[k] = bytes.fromhex(o[2])
                else:
                    if k not in mm:
                        self.ctx.count("noop_updates")
                    mm.pop(k, None)
            if op[0] != "batch" or op[2] is None:
                m = mm
        return super().run()


def run_case(case, ctx):
    C06Runner(case, ctx).run()
    ctx.evaluated()


def shrink(case, monitor):
    return shrink_list(sys.modules[__name__], case, monitor)


def run_shard(ctx):
    rnd = ctx.rnd
    mod = sys.modules[__name__]
    n = 1000 if ctx.tier == "quick" else 6000
    maxops = 25 if ctx.tier == "quick" else 100
    for i in range(n):
        if i % 5 == 3:
            case = hh.gen_threshold_history(rnd, prune=True)
            ctx.count("threshold_histories")
        elif i % 25 == 24:
            case = hh.gen_bulk_history(rnd, ctx.tier, prune=True)
            ctx.count("bulk_histories")
        else:
            case = hh.gen_history(rnd, rnd.randint(1, maxops), prune=True, batch_p=0.3, sp_p=0.08, bad_p=0.04)
        if i < 2:
            ctx.sample(case)
        run_case_guarded(mod, case, ctx)
        if ctx.full:
            return
