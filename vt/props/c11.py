"""C11 - HexaryTrieFog is an immutable, order-independent record of unexplored prefixes.

Deciding monitor: a Python set of nibble tuples run in lock step with the real fog.  After
every call: the unexplored set (read both from the object and, through the public API only, by
walking nearest_right from left to right) equals the model, is an antichain, the receiver is
unchanged, independent explorations commute, is_complete / == / serialize round trip agree,
invalid requests are rejected without effect, and nearest_unknown / nearest_right answer as
the statement prescribes for a handful of query keys."""
import ast
import itertools
import sys

from trie.exceptions import FullDirectionalVisibility, PerfectVisibility
from trie.fog import HexaryTrieFog

from vt.core import Raised, Violation, cut, run_case_guarded, shrink_list

ID = "C11"
LEVEL = "exploration"
RULE = (
    "case = sequence of explore / mark_all_complete / invalid requests on a fresh fog (sub-segments of "
    "leaf, extension, branch and mixed-length kind) with 5 query keys after every step; evaluations = "
    "cases; distinct = distinct unexplored sets reached; non-trivial = set with at least 2 prefixes"
)
ASSUMPTIONS = [
    "the class of the rejection is only required to be an Exception (the statement names none)",
]
EXHAUSTIVE = {
    "quick": "all explore sequences over sub-segment alphabet {(0,),(7,),(f,)} (every subset) to depth 3",
    "thorough": "all explore sequences over sub-segment alphabet {(0,),(7,),(f,)} (every subset) to depth 4",
}
# thorough tier: the repository's own tests replayed under these run-time contracts
REPO_TESTS = {"files": ["tests/core/test_fog.py", "tests/core/test_hexary_trie_walk.py"],
              "contracts": ["fog_antichain", "fog_explore", "fog_mark_all_complete"]}
FLOORS = {
    "quick": {"steps": 20000, "queries": 100000, "commute_checks": 2000, "rejections": 3000,
              "kind_ext": 1000, "kind_branch": 1000, "kind_mixed": 1000, "kind_leaf": 1000, "kind_mark": 500,
              "public_enumerations": 20000, "nested_with_3_lengths": 100, "nested_parent_not_shortest": 50,
              "kind_selfseg": 500, "kind_texty": 100, "mark_unknown_among_known": 300,
              "mark_duplicates_rejected": 1},
    "thorough": {"steps": 200000, "queries": 1000000, "commute_checks": 20000, "rejections": 30000,
                 "kind_ext": 10000, "kind_branch": 10000, "kind_mixed": 10000, "kind_leaf": 10000,
                 "kind_mark": 5000, "public_enumerations": 200000, "nested_with_3_lengths": 1000,
                 "nested_parent_not_shortest": 500},
}


def hp_decode(b):
    n = []
    for x in b:
        n += [x >> 4, x & 15]
    flag = n[0]
    return tuple(n[1:] if flag & 1 else n[2:])


def members_internal(fog):
    s = getattr(fog, "_unexplored_prefixes", None)
    if s is not None:
        return set(tuple(int(x) for x in p) for p in s)
    try:
        raw = fog.serialize()
        lst = ast.literal_eval(raw[len(b"HexaryTrieFog:"):].decode())
        return set(hp_decode(b) for b in lst)
    except Exception:
        # neither the attribute nor the serialisation format is promised: fall back on the
        # public queries
        return set(members_public(fog))


def _succ(p):
    """smallest nibble string greater than everything that starts with p"""
    p = list(p)
    while p and p[-1] == 15:
        p.pop()
    if not p:
        return None
    p[-1] += 1
    return tuple(p)


def members_public(fog, limit=10000):
    """Enumerate the unexplored prefixes left to right through nearest_right only."""
    out = []
    key = ()
    for _ in range(limit):
        r = cut(fog.nearest_right, key, expect=(PerfectVisibility, FullDirectionalVisibility))
        if isinstance(r, Raised):
            break
        r = tuple(int(x) for x in r)
        if out and r <= out[-1]:
            raise Violation("fog-nearest-right", "walking right from %r returned %r after %r" % (key, r, out[-1]))
        out.append(r)
        key = _succ(r)
        if key is None:
            break
    return out


def antichain(s):
    s = sorted(s)
    return not any(a != b and b[: len(a)] == a for a in s for b in s)


def check_queries(fog, model, rnd, ctx):
    sm = sorted(model)
    for _ in range(5):
        key = tuple(rnd.randrange(16) for _ in range(rnd.randint(0, 5)))
        if sm and rnd.random() < 0.5:
            b = rnd.choice(sm)
            key = (b + key[:2]) if rnd.random() < 0.7 else b[: rnd.randint(0, len(b))]
        cont = [q for q in sm if key[: len(q)] == q]
        left = [q for q in sm if q < key]
        right = [q for q in sm if q > key]
        r = cut(fog.nearest_unknown, key, expect=(PerfectVisibility,))
        if isinstance(r, Raised):
            if model:
                raise Violation("fog-nearest-unknown", "PerfectVisibility although %d prefixes are unexplored" % len(model))
        else:
            r = tuple(int(x) for x in r)
            if r not in model:
                raise Violation("fog-nearest-unknown", "nearest_unknown(%r)=%r is not an unexplored prefix" % (key, r))
            if cont:
                if r != cont[0]:
                    raise Violation("fog-nearest-unknown", "nearest_unknown(%r)=%r although %r contains the key" % (key, r, cont[0]))
            else:
                adj = ([left[-1]] if left else []) + ([right[0]] if right else [])
                if r not in adj:
                    raise Violation("fog-nearest-unknown", "nearest_unknown(%r)=%r is not adjacent to the key (neighbours %r)" % (key, r, adj))
        r = cut(fog.nearest_right, key, expect=(PerfectVisibility, FullDirectionalVisibility))
        if isinstance(r, Raised):
            if isinstance(r.exc, PerfectVisibility) and model:
                raise Violation("fog-nearest-right", "PerfectVisibility although %d prefixes are unexplored" % len(model))
            if isinstance(r.exc, FullDirectionalVisibility) and (cont or right or not model):
                raise Violation("fog-nearest-right", "FullDirectionalVisibility for %r although %r lies to the right / contains it"
                                % (key, (cont or right or ["<nothing unexplored: PerfectVisibility expected>"])[0]))
        else:
            r = tuple(int(x) for x in r)
            exp = cont[0] if cont else (right[0] if right else None)
            if r != exp:
                raise Violation("fog-nearest-right", "nearest_right(%r)=%r, expected %r" % (key, r, exp))
        ctx.count("queries", 2)
    # default argument of nearest_unknown
    r = cut(fog.nearest_unknown, expect=(PerfectVisibility,))
    if isinstance(r, Raised) != (not model):
        raise Violation("fog-nearest-unknown", "nearest_unknown() %s with %d unexplored prefixes" % (
            "raised PerfectVisibility" if isinstance(r, Raised) else "returned", len(model)))


def run_wide(case, ctx):
    """SCALE: a fog with several hundred unexplored prefixes (two full levels of 16, then more)"""
    import random

    rnd = random.Random(case.get("qseed", 0))
    fog = HexaryTrieFog()
    model = {()}
    fog = cut(fog.explore, (), [(n,) for n in range(16)])
    model = {(n,) for n in range(16)}
    for n in range(16):
        fog = cut(fog.explore, (n,), [(m,) for m in range(16)])
        model.discard((n,))
        model |= {(n, m) for m in range(16)}
    for p in rnd.sample(sorted(model), case.get("extra", 20)):
        segs = [(x,) for x in rnd.sample(range(16), 3)]
        fog = cut(fog.explore, p, segs)
        model.discard(p)
        model |= {p + s for s in segs}
    if members_internal(fog) != model:
        raise Violation("fog-set", "wide fog: unexplored set differs from the model (%d vs %d prefixes)" % (len(members_internal(fog)), len(model)))
    for _ in range(40):
        check_queries(fog, model, rnd, ctx)
    # queries at and beyond the last prefix, and before the first
    sm = sorted(model)
    for q in (sm[-1], sm[-1] + (15,), (15,) * 6, sm[0], (), sm[len(sm) // 2]):
        r = cut(fog.nearest_unknown, q, expect=(PerfectVisibility,))
        if isinstance(r, Raised) or tuple(int(x) for x in r) not in model:
            raise Violation("fog-nearest-unknown", "wide fog (%d prefixes): nearest_unknown(%r) gave %r" % (len(model), q, r))
    ser = cut(fog.serialize)
    if not (cut(HexaryTrieFog.deserialize, ser) == fog):
        raise Violation("fog-serialize", "wide fog does not round-trip")
    ctx.count("wide_fogs")
    ctx.count("wide_fog_prefixes", len(model))
    ctx.evaluated()


def run_case(case, ctx):
    if case.get("wide"):
        return run_wide(case, ctx)
    import random

    rnd = random.Random(case.get("qseed", 0))
    fog = HexaryTrieFog()
    model = {()}
    prev = None
    for step in case["steps"]:
        kind = step[0]
        before = frozenset(members_internal(fog))
        sm = sorted(model)
        if kind in ("explore", "bad_dup", "bad_nested"):
            if not sm:
                break
            p = sm[step[1] % len(sm)]
            segs = [tuple(s) for s in step[2]]
            if kind == "explore":
                nf = cut(fog.explore, p, segs)
                model.discard(p)
                model |= {p + s for s in segs}
                ctx.count("kind_" + step[3])
                # independent explorations commute
                others = [q for q in sm if q != p]
                if others:
                    q = others[step[1] % len(others)]
                    s2 = [(5,), (6, 7)] if step[1] % 7 else [()]
                    a = cut(fog.explore, p, segs)
                    a = cut(a.explore, q, s2)
                    b = cut(fog.explore, q, s2)
                    b = cut(b.explore, p, segs)
                    if not (a == b) or members_internal(a) != members_internal(b):
                        raise Violation("fog-commute", "explore(%r).explore(%r) != explore(%r).explore(%r)" % (p, q, q, p))
                    ctx.count("commute_checks")
            else:
                r = cut(fog.explore, p, segs, expect=(Exception,))
                if not isinstance(r, Raised):
                    raise Violation("fog-invalid-accepted", "explore(%r, %r) with %s sub-segments was accepted" % (
                        p, segs, "duplicate" if kind == "bad_dup" else "nested"))
                nf = fog
                ctx.count("rejections")
                if kind == "bad_nested":
                    lens = sorted({len(x) for x in segs})
                    ctx.count("nested_with_%d_lengths" % min(len(lens), 4))
                    pair = [(a, b) for a in segs for b in segs if a != b and b[: len(a)] == a]
                    if pair and len(pair[0][0]) > lens[0]:
                        ctx.count("nested_parent_not_shortest")
        elif kind == "mark":
            if not sm:
                break
            ps = sorted({sm[i % len(sm)] for i in step[1]})
            # mark_all_complete(ps) is explore(p, ()) for each p in turn: by its second mention a
            # prefix is no longer unexplored, so a list that names one twice is refused - also
            # when the list is as long as the fog is wide and names members only
            dups = [[ps[0], ps[0]], ps + [ps[0]], [ps[-1]] + ps]
            if len(sm) >= 2:
                dups += [list(sm[:-1]) + [sm[0]], [sm[0]] * len(sm), [sm[-1]] + list(sm[1:])]
            for lst in dups:
                r = cut(fog.mark_all_complete, lst, expect=(Exception,))
                if not isinstance(r, Raised):
                    raise Violation("fog-invalid-accepted", "mark_all_complete(%r) names a prefix twice (unknown by its second mention) and was accepted; "
                                    "%d prefixes were unexplored, the result has %d" % (lst, len(sm), len(members_internal(r))))
                ctx.count("mark_duplicates_rejected")
            nf = cut(fog.mark_all_complete, ps)
            model -= set(ps)
            ctx.count("kind_mark")
        elif kind == "bad_unknown":
            # a prefix that is not in the unexplored set: below a member, above one, or unrelated
            base = sm[step[1] % len(sm)] if sm else ()
            q = tuple(step[2])
            cand = base + q if step[3] == 0 else (base[:-1] if base else (3, 3))
            if cand in model:
                nf = fog
            else:
                r = cut(fog.explore, cand, [(1,)], expect=(Exception,))
                if not isinstance(r, Raised):
                    raise Violation("fog-invalid-accepted", "explore of unknown prefix %r was accepted" % (cand,))
                r = cut(fog.mark_all_complete, [cand], expect=(Exception,))
                if not isinstance(r, Raised):
                    raise Violation("fog-invalid-accepted", "mark_all_complete of unknown prefix %r was accepted" % (cand,))
                if sm:
                    r = cut(fog.mark_all_complete, [sm[0], cand], expect=(Exception,))
                    if not isinstance(r, Raised):
                        raise Violation("fog-invalid-accepted", "mark_all_complete([member, unknown]) was accepted")
                if len(sm) >= 2:
                    # an unknown prefix hidden between known ones, in every position
                    for lst in ([sm[0], cand, sm[-1]], [sm[0], sm[-1], cand], [cand, sm[0], sm[-1]],
                                sorted([sm[0], cand, sm[-1]]), list(sm) + [cand], list(sm[:-1]) + [cand]):
                        r = cut(fog.mark_all_complete, lst, expect=(Exception,))
                        if not isinstance(r, Raised):
                            raise Violation("fog-invalid-accepted", "mark_all_complete(%r) with the unknown prefix %r was accepted" % (lst, cand))
                    ctx.count("mark_unknown_among_known")
                nf = fog
                ctx.count("rejections")
        else:
            raise ValueError(kind)
        after = frozenset(members_internal(fog))
        if after != before:
            raise Violation("fog-receiver-mutated", "%s changed the receiver: %r -> %r" % (kind, sorted(before), sorted(after)))
        prev, fog = fog, nf
        got = members_internal(fog)
        if got != model:
            raise Violation("fog-set", "after %s the unexplored set is %r, model says %r" % (kind, sorted(got), sorted(model)))
        pub = members_public(fog)
        ctx.count("public_enumerations")
        if pub != sorted(model):
            raise Violation("fog-set-public", "walking nearest_right left to right yields %r, model says %r" % (pub, sorted(model)))
        if not antichain(got):
            raise Violation("fog-antichain", "an unexplored prefix starts with another: %r" % sorted(got))
        if cut(lambda: fog.is_complete) != (not model):
            raise Violation("fog-is-complete", "is_complete=%r with %d unexplored prefixes" % (fog.is_complete, len(model)))
        ser = cut(fog.serialize)
        back = cut(HexaryTrieFog.deserialize, ser)
        if not (back == fog) or members_internal(back) != model:
            raise Violation("fog-serialize", "deserialize(serialize(fog)) differs from the fog")
        if frozenset(model) != before and (fog == prev):
            raise Violation("fog-eq", "fogs with different unexplored sets compare equal")
        check_queries(fog, model, rnd, ctx)
        ctx.count("steps")
        ctx.shape(sorted(model), len(model) >= 2)
    ctx.evaluated()


def shrink(case, monitor):
    return shrink_list(sys.modules[__name__], case, monitor, field="steps")


def gen_nested(rnd):
    """Sub-segments with exactly one nested pair hidden among an otherwise valid antichain of
    1..4 further segments of several distinct lengths: the parent may be the shortest segment,
    one of middle length, or (rarely) the empty segment; the child extends it by 1-2 nibbles."""
    firsts = rnd.sample(range(16), rnd.randint(1, 5))
    segs = [[n] + [rnd.randrange(16) for _ in range(rnd.choice([0, 0, 1, 2, 3]))] for n in firsts]
    parent = rnd.choice(segs)
    r = rnd.random()
    if r < 0.5 or len(parent) == 1:
        segs.append(parent + [rnd.randrange(16) for _ in range(rnd.randint(1, 2))])
    elif r < 0.95:
        segs.append(parent[: rnd.randint(1, len(parent) - 1)])
    else:
        segs.append([])
        if len(segs) == 1:
            segs.append([rnd.randrange(16)])
    rnd.shuffle(segs)
    return segs


# the serialisation is text (a repr of byte strings inside a list): nibble strings that spell
# its own punctuation are the classic way to confuse it
TEXTY = [b"HexaryTrieFog:", b"'", b'"', b"\\", b"b'", b"]", b"[", b",", b", ", b"\n", b"\\x", b"b'']", b"HexaryTrieFog:[]"]


def texty_segment(rnd):
    t = rnd.choice(TEXTY)
    if rnd.random() < 0.5:
        t = bytes([rnd.randrange(256)]) + t + bytes([rnd.randrange(256)])
    return [n for b in t for n in (b >> 4, b & 15)]


def gen_case(rnd, maxsteps=12):
    steps = []
    for _ in range(rnd.randint(1, maxsteps)):
        kind = rnd.choice(["leaf", "ext", "ext", "branch", "branch", "mixed", "mixed", "mark",
                           "bad_unknown", "bad_dup", "bad_nested", "selfseg"])
        i = rnd.randrange(1000)
        if kind == "leaf":
            steps.append(["explore", i, [], "leaf"])
        elif kind == "selfseg":
            # the single EMPTY continuation: the prefix is replaced by itself, nothing changes
            steps.append(["explore", i, [[]], "selfseg"])
        elif kind == "ext" and rnd.random() < 0.15:
            steps.append(["explore", i, [texty_segment(rnd)], "texty"])
        elif kind == "ext":
            steps.append(["explore", i, [[rnd.randrange(16) for _ in range(rnd.randint(1, 4))]], "ext"])
        elif kind == "branch":
            steps.append(["explore", i, [[n] for n in sorted(rnd.sample(range(16), rnd.randint(1, 6)))], "branch"])
        elif kind == "mixed":
            segs = []
            for n in rnd.sample(range(16), rnd.randint(2, 4)):
                segs.append([n] + [rnd.randrange(16) for _ in range(rnd.randint(0, 2))])
            steps.append(["explore", i, segs, "mixed"])
        elif kind == "mark":
            steps.append(["mark", [rnd.randrange(1000) for _ in range(rnd.randint(1, 3))]])
        elif kind == "bad_unknown":
            steps.append(["bad_unknown", i, [rnd.randrange(16) for _ in range(rnd.randint(1, 2))], rnd.randrange(2)])
        elif kind == "bad_dup":
            s = [rnd.randrange(16) for _ in range(rnd.randint(1, 2))]
            steps.append(["bad_dup", i, [s, [9], s]])
        else:
            steps.append(["bad_nested", i, gen_nested(rnd)])
    return {"steps": steps, "qseed": rnd.randrange(1 << 30)}


def small_scope(ctx, depth):
    alpha = [[0], [7], [15]]
    subsets = [list(c) for r in range(0, 4) for c in itertools.combinations(alpha, r)]
    idx = 0
    # member choice by index (mod number of members): before the d-th explore at most 2d-1
    # members exist, so range(2*depth-1) indices make the enumeration complete
    for d in range(1, depth + 1):
        for choice in itertools.product(itertools.product(range(2 * depth - 1), range(len(subsets))), repeat=d):
            if idx % ctx.nshards == ctx.shard:
                steps = [["explore", mi, subsets[si], "branch" if len(subsets[si]) > 0 else "leaf"] for mi, si in choice]
                yield {"steps": steps, "qseed": idx}
            idx += 1


def run_shard(ctx):
    rnd = ctx.rnd
    mod = sys.modules[__name__]
    n = 400 if ctx.tier == "quick" else 4000
    for i in range(n):
        case = gen_case(rnd, 12 if ctx.tier == "quick" else 30)
        if i == 0:
            ctx.sample(case)
        run_case_guarded(mod, case, ctx)
        if ctx.full:
            return
    for j in range(2 if ctx.tier == "quick" else 10):
        run_case_guarded(mod, {"wide": True, "qseed": rnd.randrange(1 << 30), "extra": rnd.randint(5, 60), "steps": []}, ctx)
    for case in small_scope(ctx, 3 if ctx.tier == "quick" else 4):
        run_case_guarded(mod, case, ctx)
        ctx.count("exhaustive_sequences")
        if ctx.full:
            return
