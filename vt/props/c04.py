"""C04 - non-pruning tries never lose or alter history: old roots stay readable.

Deciding monitors:
 * an ONLINE trace specification on the shared database, checked as each event happens:
   no delete / pop / clear, every write keyed by keccak(value), no existing entry changed;
 * per-root model snapshots: every root any trie (or written-through at_root snapshot) ever
   had is re-read through a fresh HexaryTrie(db, root) and through at_root(root);
 * write-fault enumeration: for flagged operations (plain or batched) a dry run counts the
   writes W, the operation is then executed W times with the n-th write raising, the state is
   audited after each, and finally executed without fault."""
import random
import sys

from eth_hash.auto import keccak
from trie import HexaryTrie

from vt import gen
from vt.core import Raised, Violation, cut, hx, run_case_guarded, shrink_list, unhx
from vt.engines import hexary_history as hh
from vt.monitor.db import InjectedWriteFailure, RecordingDB, TraceViolation
from vt.ref.mpt import RefTrie

ID = "C04"
LEVEL = "fault_enumeration"
RULE = (
    "case = one interleaved history of 1-3 non-pruning tries (plus written-through at_root snapshots "
    "and open squash_changes spans of one trie overlapping operations of the others) over ONE shared "
    "recording database, with every failing-write position enumerated for the flagged operations; "
    "evaluations = schedule steps + fault points executed; distinct = distinct (canonical shape of a "
    "re-read historical root) and distinct (shape, operation kind, failing write index); non-trivial = "
    "root with at least 2 keys / any fault point"
)
ASSUMPTIONS = [
    "only non-pruning tries (the property is about them)",
    "a squash_changes block opened on a batch trie may be refused (with any exception) or work; history must survive either way",
    "fault model: a database write raises; reads and membership tests do not fail here (C07 covers reads)",
]
FLOORS = {
    "quick": {"db_writes_checked": 9000, "historical_reads": 150000, "fault_points": 2000,
              "interleaved_spans": 500, "snapshot_writes": 300, "batch_steps": 1000, "nested_batch_refused": 100, "live_writes_under_open_snapshot": 300,
              "nested_batch_committed": 50},
    "thorough": {"db_writes_checked": 90000, "historical_reads": 1500000, "fault_points": 20000,
                 "interleaved_spans": 5000, "snapshot_writes": 3000, "batch_steps": 10000,
                 "nested_batch_refused": 1000, "nested_batch_committed": 500},
}


def trace_spec(ctx):
    def check(db, op, key, value):
        if op in ("del", "pop", "clear"):
            raise TraceViolation("history-db-delete", "non-pruning trie issued %s(%s) on the database" % (op, hx(key)))
        if op == "set":
            ctx.count("db_writes_checked")
            if keccak(value) != key:
                raise TraceViolation("history-db-not-content-addressed", "write under key %s whose value hashes to %s" % (hx(key), hx(keccak(value))))
            old = db.raw().get(key)
            if old is not None and old != value:
                raise TraceViolation("history-db-entry-changed", "existing entry %s overwritten with different bytes" % hx(key))
    return check


class Sched:
    def __init__(self, case, ctx):
        self.case = case
        self.ctx = ctx
        self.rnd = random.Random(case.get("pseed", 0))
        self.dictsub = case.get("db") == "dictsub"
        if self.dictsub:
            # a dict SUBCLASS overriding the item protocol: no trace events and no injected
            # write faults there, but every root ever seen must stay readable all the same
            self.db = hh.PrefixDict()
            ctx.count("cases_over_a_dict_subclass")
        else:
            self.db = RecordingDB()
            self.db.checkers.append(trace_spec(ctx))
        n = case["ntries"]
        self.tries = [HexaryTrie(self.db) for _ in range(n)]
        self.models = [{} for _ in range(n)]
        self.open = {}        # trie index -> (cm, batch trie, batch model)
        self.roots = []       # (root, model snapshot)
        self.seen = set()

    # ---------------------------------------------------------------- historical roots
    def remember(self, root, model):
        if root not in self.seen:
            self.seen.add(root)
            self.roots.append((root, dict(model)))

    def read_root(self, root, model, via):
        if via == "fresh":
            tt = HexaryTrie(self.db, root)
            self._compare(tt, root, model, "fresh HexaryTrie(db, old_root)")
        else:
            opener = self.tries[self.rnd.randrange(len(self.tries))]
            with opener.at_root(root) as snap:
                self._compare(snap, root, model, "at_root(old_root)")

    def _compare(self, tt, root, model, how):
        probes = list(model) + [k + b"\x00" for k in list(model)[:2]] + [gen.key_adv(self.rnd)]
        for k in probes:
            exp = model.get(k, b"")
            try:
                got = cut(tt.get, k)
            except Violation as v:
                raise Violation("history-root-unreadable", "root %s read through %s: %s" % (hx(root), how, v.detail))
            if got != exp:
                raise Violation("history-root-contents", "root %s read through %s: get(%s)=%s, it held %s when current" % (
                    hx(root), how, hx(k), hx(got), hx(exp)))
            self.ctx.count("historical_reads")

    def audit_roots(self, everything=False):
        if everything:
            todo = self.roots
        else:
            todo = self.roots[-2:] + (self.rnd.sample(self.roots, min(3, len(self.roots))) if self.roots else [])
        if self.rnd.random() < 0.2:
            self.nested_snapshots()
        for root, model in todo:
            self.read_root(root, model, "fresh")
            self.read_root(root, model, "at_root")
            if len(model) >= 2:
                self.ctx.shape(("root", RefTrie(model).shape()))

    def nested_snapshots(self):
        """two at_root snapshots of the same trie alive at the same time: each keeps showing
        its own root"""
        if len(self.roots) < 2:
            return
        (r1, m1), (r2, m2) = self.rnd.sample(self.roots, 2)
        opener = self.tries[self.rnd.randrange(len(self.tries))]
        with opener.at_root(r1) as s1:
            with opener.at_root(r2) as s2:
                self._compare(s2, r2, m2, "inner at_root(old_root) of two nested snapshots")
                self._compare(s1, r1, m1, "outer at_root(old_root) while a second snapshot is open")
            self._compare(s1, r1, m1, "outer at_root(old_root) after the inner snapshot was closed")
        self.ctx.count("nested_snapshots")

    def check_trace(self):
        tv = self.db.pending_trace_violation
        if tv is not None:
            raise Violation(tv.monitor, tv.detail)

    # ----------------------------------------------------------------------- operations
    def do_unit(self, i, unit, model):
        """unit = plain op or ['batch', ops, abort]; applied to trie i; returns new model"""
        t = self.tries[i]
        if unit[0] == "batch":
            _, sub, abort = unit[:3]
            exc_cls = hh.abort_exc(unit)
            bm = dict(model)

            kept = []

            def block():
                with t.squash_changes() as b:
                    kept.append(b)
                    for j, o in enumerate(sub):
                        if abort == j:
                            raise exc_cls()
                        hh.apply_plain(b, bm, o)
                    if abort == len(sub):
                        raise exc_cls()

            res = cut(block, expect=hh.ALL_ABORTS + (InjectedWriteFailure,))
            if kept and not isinstance(res, Raised) and self.rnd.random() < 0.3:
                # the caller kept the batch handle and writes through it after the block has
                # ended (whatever that does, it must not hurt the database's history)
                cut(lambda: kept[0].set(b"\x01late", b"written through a stale batch handle" * 2), expect=(Exception,))
                cut(lambda: kept[0].delete(b"\x01late"), expect=(Exception,))
                self.ctx.count("late_writes_through_stale_handle")
                self.check_trace()
            if isinstance(res, Raised):
                if isinstance(res.exc, InjectedWriteFailure):
                    raise res.exc
                return model
            return bm
        m = dict(model)
        res = cut(lambda: hh.apply_plain(t, m, unit), expect=(InjectedWriteFailure,))
        if isinstance(res, Raised):
            raise res.exc
        return m

    def count_writes(self, i, unit):
        """dry run on a copy of the database"""
        d2 = RecordingDB(self.db.snapshot())
        t2 = HexaryTrie(d2, self.tries[i].root_hash)
        saved = self.tries[i]
        self.tries[i] = t2
        try:
            self.do_unit(i, unit, self.models[i])
        finally:
            self.tries[i] = saved
        return d2.writes

    def with_faults(self, i, unit):
        t = self.tries[i]
        w = self.count_writes(i, unit)
        for n in range(1, w + 1):
            before_root = t.root_hash
            self.db.reset_counts()
            self.db.fail_write_at = n
            done = None
            try:
                done = self.do_unit(i, unit, self.models[i])
            except InjectedWriteFailure:
                pass
            else:
                if self.db.injected_failures == 0:
                    # the operation needed fewer than n writes this time (an implementation may
                    # skip bodies that earlier, failed attempts already stored): no fault was
                    # injected, the operation simply completed
                    self.db.fail_write_at = None
                    self.ctx.count("fault_point_not_reached")
                    self.models[i] = done
                    self.remember(t.root_hash, self.models[i])
                    return
                self.db.fail_write_at = None
                raise Violation("history-fault-not-propagated", "write #%d of %d failed but the operation reported success" % (n, w))
            finally:
                self.db.fail_write_at = None
            self.check_trace()
            self.ctx.count("fault_points")
            self.ctx.evaluated()
            if t.root_hash != before_root:
                raise Violation("history-fault-root", "root changed (%s -> %s) by an operation whose write #%d of %d failed" % (
                    hx(before_root), hx(t.root_hash), n, w))
            # current and historical roots must still read as before
            self._compare(HexaryTrie(self.db, before_root), before_root, self.models[i], "current root after a failed write")
            for root, model in self.roots[-3:]:
                self.read_root(root, model, "fresh")
            self.ctx.shape(("fault", RefTrie(self.models[i]).shape(), unit[0], n))
        # and the same operation completes when retried without fault
        self.db.reset_counts()

    def run(self):
        for step in self.case["steps"]:
            kind = step[0]
            i = step[1] % len(self.tries)
            t = self.tries[i]
            if kind == "unit":
                unit, fault = step[2], step[3]
                if i in self.open:
                    continue  # this trie has an open batch span; it only takes 'bop' steps
                if fault and not self.dictsub:
                    self.with_faults(i, unit)
                self.models[i] = self.do_unit(i, unit, self.models[i])
                if unit[0] == "batch":
                    self.ctx.count("batch_steps")
                # retried / plain operation must have taken effect
                ks = [unhx(o[1]) for o in (unit[1] if unit[0] == "batch" else [unit])]
                for k in ks:
                    got = cut(t.get, k)
                    if got != self.models[i].get(k, b""):
                        raise Violation("history-op-effect", "after the operation get(%s)=%s, expected %s" % (
                            hx(k), hx(got), hx(self.models[i].get(k, b""))))
                self.remember(t.root_hash, self.models[i])
            elif kind == "snaplive":
                # the LIVE trie is written while an at_root snapshot of it is open: the snapshot
                # keeps showing the old contents, the live trie keeps its write after the block
                if i in self.open or not self.roots:
                    continue
                old_root, old_model = self.roots[step[2] % len(self.roots)]
                with t.at_root(old_root) as snap:
                    self._compare(snap, old_root, old_model, "at_root(old_root) before the live trie is written")
                    self.models[i] = self.do_unit(i, step[3], self.models[i])
                    self._compare(snap, old_root, old_model, "at_root(old_root) while the live trie was written")
                    if snap.root_hash != old_root:
                        raise Violation("history-root-contents", "the snapshot's root moved when the live trie was written")
                k = unhx(step[3][1])
                got = cut(t.get, k)
                if got != self.models[i].get(k, b""):
                    raise Violation("history-op-effect", "a write made to the live trie while a snapshot was open is gone after the block: get(%s)=%s, expected %s" % (
                        hx(k), hx(got), hx(self.models[i].get(k, b""))))
                self._compare(HexaryTrie(self.db, t.root_hash), t.root_hash, self.models[i], "live root after a snapshot block")
                self.remember(t.root_hash, self.models[i])
                self.ctx.count("live_writes_under_open_snapshot")
            elif kind == "bigbatch-marker":
                self.ctx.count("big_batches")
            elif kind == "nested":
                # a squash_changes block opened on the batch trie of another block.  Whether the
                # code supports that is not promised (any refusal is accepted, and then nothing
                # may have happened); what IS promised is that history survives it.
                if i in self.open:
                    continue
                outer, inner = step[2], step[3]
                bm = dict(self.models[i])
                before_root = t.root_hash

                def block():
                    with t.squash_changes() as b:
                        for o in outer:
                            hh.apply_plain(b, bm, o)
                        with b.squash_changes() as b2:
                            for o in inner:
                                hh.apply_plain(b2, bm, o)

                res = cut(block, expect=(Exception,))
                self.check_trace()
                if isinstance(res, Raised):
                    self.ctx.count("nested_batch_refused")
                    if t.root_hash != before_root:
                        raise Violation("history-fault-root", "root changed by a nested batch that was refused with %s" % type(res.exc).__name__)
                else:
                    self.ctx.count("nested_batch_committed")
                    self.models[i] = bm
                self._compare(HexaryTrie(self.db, t.root_hash), t.root_hash, self.models[i], "current root after a nested batch")
                self.remember(t.root_hash, self.models[i])
                for root, model in self.roots[-4:]:
                    self.read_root(root, model, "fresh")
            elif kind == "open":
                if i in self.open:
                    continue
                cm = t.squash_changes()
                b = cut(cm.__enter__)
                self.open[i] = (cm, b, dict(self.models[i]))
                self.ctx.count("interleaved_spans")
            elif kind == "bop":
                if i not in self.open:
                    continue
                cm, b, bm = self.open[i]
                hh.apply_plain(b, bm, step[2])
            elif kind == "close":
                if i not in self.open:
                    continue
                cm, b, bm = self.open.pop(i)
                if step[2]:
                    exc_cls = hh.ABORT_EXC[int(step[2]) - 1 if int(step[2]) <= len(hh.ABORT_EXC) else 0]
                    boom = exc_cls()
                    res = cut(cm.__exit__, exc_cls, boom, None, expect=hh.ALL_ABORTS)
                    if res is True:
                        raise Violation("batch-swallowed-exception", "squash_changes suppressed the caller's exception")
                else:
                    cut(cm.__exit__, None, None, None)
                    self.models[i] = bm
                self.remember(t.root_hash, self.models[i])
            elif kind == "snapw":
                if not self.roots:
                    continue
                root, model = self.roots[step[2] % len(self.roots)]
                m = dict(model)
                with t.at_root(root) as snap:
                    hh.apply_plain(snap, m, step[3])
                    self.remember(snap.root_hash, m)
                self.ctx.count("snapshot_writes")
            else:
                raise ValueError(kind)
            self.check_trace()
            self.audit_roots()
            self.ctx.evaluated()
        # close what is still open (commit), then re-read every root ever seen
        for i in list(self.open):
            cm, b, bm = self.open.pop(i)
            cut(cm.__exit__, None, None, None)
            self.models[i] = bm
            self.remember(self.tries[i].root_hash, bm)
        self.check_trace()
        self.audit_roots(everything=True)
        self.ctx.count("roots_seen", len(self.roots))


def run_case(case, ctx):
    Sched(case, ctx).run()


def shrink(case, monitor):
    return shrink_list(sys.modules[__name__], case, monitor, field="steps")


def gen_case(rnd, tier):
    ntries = rnd.randint(1, 3)
    universe = gen.KeyUniverse(rnd, rnd.choice(["adv", "adv", "chain", "fix3", "nibbly"]))
    pool = gen.value_pool(rnd)
    keys = [set() for _ in range(ntries)]
    steps = []
    nsteps = rnd.randint(3, 14 if tier == "quick" else 30)
    open_spans = set()
    for _ in range(nsteps):
        i = rnd.randrange(ntries)
        r = rnd.random()
        if i in open_spans:
            if r < 0.6:
                steps.append(["bop", i, hh.gen_op(rnd, universe, pool, keys[i])])
            else:
                steps.append(["close", i, rnd.choice([0, 0, 0, 0, 0, 0, 0, 1, 1, 2, 3, 4])])
                open_spans.discard(i)
            continue
        if r < 0.12:
            steps.append(["open", i])
            open_spans.add(i)
        elif r < 0.22:
            steps.append(["snapw", i, rnd.randrange(1000), hh.gen_op(rnd, universe, pool, keys[i])])
        elif r < 0.34:
            o = hh.gen_op(rnd, universe, pool, keys[i])
            hh._track(o, keys[i])
            steps.append(["snaplive", i, rnd.randrange(1000), o])
        elif r < 0.40:
            # keys[i] is not updated: the nested batch may be refused, later steps draw keys anyway
            outer = [hh.gen_op(rnd, universe, pool, keys[i]) for _ in range(rnd.randint(0, 3))]
            inner = [hh.gen_op(rnd, universe, pool, keys[i]) for _ in range(rnd.randint(0, 3))]
            steps.append(["nested", i, outer, inner])
        elif r < 0.58:
            n = rnd.randint(0, 4)
            sub = [hh.gen_op(rnd, universe, pool, keys[i]) for _ in range(n)]
            abort = rnd.randint(0, n) if rnd.random() < 0.25 else None
            steps.append(["unit", i, ["batch", sub, abort], rnd.random() < 0.5])
            if abort is None:
                for o in sub:
                    hh._track(o, keys[i])
        else:
            o = hh.gen_op(rnd, universe, pool, keys[i])
            hh._track(o, keys[i])
            steps.append(["unit", i, o, rnd.random() < 0.5])
    if rnd.random() < (0.03 if tier == "quick" else 0.02):
        # SCALE: one batch of hundreds of operations (well over a thousand buffered database
        # entries, many of them tombstones of nodes the database already holds) on trie 0
        sub = []
        for _ in range(rnd.randint(250, 420)):
            o = hh.gen_op(rnd, universe, pool, keys[0])
            hh._track(o, keys[0])
            sub.append(o)
        if 0 not in open_spans:
            steps.append(["unit", 0, ["batch", sub, None], False])
            steps.append(["bigbatch-marker", 0])
    return {"engine": "c04", "ntries": ntries, "pseed": rnd.randrange(1 << 30), "steps": steps,
            "universe": universe.kind, "db": "dictsub" if rnd.random() < 0.12 else "recording"}


def run_shard(ctx):
    rnd = ctx.rnd
    mod = sys.modules[__name__]
    n = 400 if ctx.tier == "quick" else 4000
    for i in range(n):
        case = gen_case(rnd, ctx.tier)
        if i < 1:
            ctx.sample(case)
        run_case_guarded(mod, case, ctx)
        if ctx.full:
            return
