"""Adversarial generators shared by the hexary workloads: keys aimed at the places the
code branches (prefix / extension / mid-path divergence / empty key), values sized around
the 32-byte embedding threshold, small pools so values repeat (shared sub-tries)."""

ALPHA_ADV = [0x00, 0x01, 0x10, 0x11, 0x12, 0xFF]

VALUE_LENGTHS = [1, 1, 2, 3, 20, 24, 25, 26, 27, 28, 29, 30, 31, 32, 33, 34, 40, 40, 55, 56, 300,
                 1, 2, 30, 31, 32, 33, 40, 254, 255, 256, 257, 1000,
                 48, 49, 50, 51, 52, 53, 54, 55, 56, 57, 58]
# RLP's three-byte length form starts at 65536 bytes: rare, expensive, but a real boundary
HUGE_VALUE_LENGTHS = [65535, 65536, 70000]


def key_adv(rnd, maxlen=4):
    return bytes(rnd.choice(ALPHA_ADV) for _ in range(rnd.randint(0, maxlen)))


def key_fix3(rnd):
    return bytes(rnd.choice(ALPHA_ADV[:5]) for _ in range(3))


def key_32(rnd):
    # 32 byte keys; a few share long prefixes
    base = bytes(rnd.randrange(256) for _ in range(32))
    return base


def key_nibbly(rnd):
    """keys that differ in single nibbles so that every branch index 0..15 is used"""
    return bytes(rnd.randrange(256) for _ in range(rnd.randint(1, 2)))


# values with STRUCTURE: things that look like RLP (an empty list, a short list, a long-form
# string header), like an encoded node, like a hash, or that start with zero bytes
STRUCTURED_VALUES = [
    b"\xc0", b"\x80", b"\xc2\x01\x02", b"\x00", b"\x00\x00\x00\x00\x00", b"\x00\x01",
    bytes([0xF8, 0x38]) + b"a" * 56, b"\xc4\x82\x20\x61\x62",          # rlp([hp-leaf-key, 'b'])
    bytes.fromhex("56e81f171bcc55a6ff8345e692c0f86e5b48e01b996cadc001622fb5e363b421"),  # the blank-root hash
    bytes.fromhex("c5d2460186f7233c927e7db2dcc703c0e500b653ca82273b7bfad8045d85a470"),  # keccak(b'')
    b"\xd1" + b"\x80" * 17,                                            # rlp of a 17-item list of blanks
]


def make_value(rnd, length=None):
    if length is None and rnd.random() < 0.06:
        return rnd.choice(STRUCTURED_VALUES)
    if length is None and rnd.random() < 0.08:
        # fixed-size RECORDS: the same head and tail, one field in the middle that differs
        return b"H" * 32 + bytes([rnd.choice(b"abcdef")]) * rnd.choice([1, 16]) + b"T" * 40
    if length is None:
        length = rnd.choice(HUGE_VALUE_LENGTHS) if rnd.random() < 0.002 else rnd.choice(VALUE_LENGTHS)
    if length == 1:
        return bytes([rnd.choice([0x00, 0x01, 0x61, 0x7F, 0x80, 0x81, 0xFF])])
    c = rnd.choice(b"abcdefgh\x00\x80\xff")
    return bytes([c]) * length


def value_pool(rnd, n=None):
    n = n or rnd.randint(3, 6)
    return [make_value(rnd) for _ in range(n)]


class KeyUniverse:
    """A small, per-case key universe, so that histories revisit keys (overwrites,
    deletes of present keys) and keys are prefix-related."""

    KINDS = ["adv", "adv", "adv", "chain", "fix3", "k32", "nibbly", "adv", "chain", "fix3", "k32", "nibbly", "k40",
             "adv", "adv", "adv", "chain", "fix3", "k32", "nibbly", "adv", "chain", "fix3", "k32", "nibbly", "k40", "k200", "k600"]

    def __init__(self, rnd, kind=None):
        self.rnd = rnd
        self.kind = kind or rnd.choice(self.KINDS)
        if kind is None and self.kind == "k600" and rnd.random() < 0.7:
            self.kind = "adv"       # about 1 history in 90: they cost ten times the others
        self.pool32 = []
        if self.kind == "k32":
            base = bytes(rnd.randrange(256) for _ in range(32))
            self.pool32 = [base]
            for _ in range(rnd.randint(4, 12)):
                # share 0..63 leading nibbles with the base
                cut = rnd.randrange(0, 64)
                other = bytearray(rnd.randrange(256) for _ in range(32))
                nb = cut // 2
                other[:nb] = base[:nb]
                if cut % 2:
                    other[nb] = (base[nb] & 0xF0) | (other[nb] & 0x0F)
                self.pool32.append(bytes(other))
        if self.kind == "k40":
            # keys LONGER than a hash (33..40 bytes, a few 64): extension paths of more than 64
            # nibbles, leaf keys whose hex-prefix encoding alone exceeds 32 bytes
            n = rnd.choice([33, 34, 40, 40, 64])
            base = bytes(rnd.randrange(256) for _ in range(n))
            self.pool32 = [base]
            for _ in range(rnd.randint(3, 8)):
                cut = rnd.randrange(0, 2 * n)
                m = rnd.choice([n, n, n, 33, 40])
                other = bytearray(rnd.randrange(256) for _ in range(m))
                nb = min(cut // 2, m)
                other[:nb] = base[:nb]
                if cut % 2 and nb < m and nb < n:
                    other[nb] = (base[nb] & 0xF0) | (other[nb] & 0x0F)
                self.pool32.append(bytes(other))
        if self.kind == "k200":
            # VERY long keys (129..200 bytes: nibble positions beyond 256, where small-int
            # identity and one-byte counters end), prefix-related so that paths end at branches
            n = rnd.choice([129, 130, 160, 200])
            base = bytes(rnd.randrange(256) for _ in range(n))
            self.pool32 = [base, base + b"\x01", base + b"\x02\x03", base[:-1], base[:128], base[:128] + b"\x77"]
            for _ in range(rnd.randint(1, 4)):
                i = rnd.randrange(n)
                self.pool32.append(base[:i] + bytes([base[i] ^ rnd.choice([0x01, 0x10, 0x80])]) + base[i + 1:])
        if self.kind == "k600":
            # path-like keys of 500-700 bytes that differ only near the end: ONE extension node
            # of more than a thousand nibbles (beyond any "no trie is that deep" figure such as
            # the interpreter's recursion limit or 1024)
            n = rnd.choice([501, 513, 600, 700])
            base = bytes(rnd.randrange(256) for _ in range(n))
            self.pool32 = [base, base + b"\x01", base[:-1] + bytes([base[-1] ^ 0x01]), base[:-1] + bytes([base[-1] ^ 0x10]),
                           base[:-1], base[:n - 7] + b"\x55"]
            i = rnd.randrange(n - 40, n)
            self.pool32.append(base[:i] + bytes([base[i] ^ 0x80]) + base[i + 1:])
        if self.kind == "ladder":
            # every key is a prefix of one long key: with many of them stored the trie is a
            # ladder two nodes deep per byte - paths of far more than 64 nodes
            self.ladder = bytes(rnd.randrange(256) for _ in range(rnd.choice([36, 40, 48])))
        if self.kind == "chain":
            self.chain_base = key_adv(rnd, 2)

    def key(self):
        rnd = self.rnd
        k = self.kind
        if k == "adv":
            return key_adv(rnd)
        if k == "fix3":
            return key_fix3(rnd)
        if k in ("k32", "k40", "k200", "k600"):
            return rnd.choice(self.pool32)
        if k == "nibbly":
            return key_nibbly(rnd)
        if k == "ladder":
            n = rnd.randint(0, len(self.ladder))
            if rnd.random() < 0.1:
                return self.ladder[:n] + bytes([rnd.randrange(256)])
            return self.ladder[:n]
        if k == "chain":
            out = self.chain_base
            for _ in range(rnd.randint(0, 3)):
                out += bytes([rnd.choice(ALPHA_ADV)])
            return out
        raise ValueError(k)


def random_model(rnd, nkeys, kind=None):
    u = KeyUniverse(rnd, kind)
    pool = value_pool(rnd)
    m = {}
    for _ in range(nkeys):
        m[u.key()] = rnd.choice(pool)
    return m


def probe_keys(rnd, model, universe=None, extra=4):
    """Lookup keys aimed at a given content: every stored key, every proper byte prefix,
    extensions by 1-2 bytes, one mid-path divergence per key, the empty key, fresh keys."""
    out = set(model)
    out.add(b"")
    for k in model:
        if len(k) <= 5:
            for i in range(len(k)):
                out.add(k[:i])
        else:
            for i in rnd.sample(range(len(k)), 4):
                out.add(k[:i])
        out.add(k + bytes([rnd.choice(ALPHA_ADV)]))
        out.add(k + bytes([rnd.randrange(256), rnd.randrange(256)]))
        if k:
            i = rnd.randrange(len(k))
            # diverge in the high or the low nibble of byte i
            flip = rnd.choice([0x10, 0x01, 0x0F, 0xF0, 0x80])
            out.add(k[:i] + bytes([k[i] ^ flip]) + k[i + 1:])
            out.add(k[:i] + bytes([k[i] ^ flip]))
    for _ in range(extra):
        out.add(universe.key() if universe is not None else key_adv(rnd))
    return sorted(out)
