"""One shard of a property's workload: fresh interpreter, loads the repository under test,
installs the step and coverage monitors, runs the property's run_shard(ctx) and dumps what
the monitors observed as JSON."""
import importlib
import json
import os
import sys


def main():
    prop, tier, seed, shard, nshards, out = sys.argv[1:7]
    from vt import env

    env.load_repo()
    env.ensure_deps()
    from vt import core
    from vt.monitor import cover

    mod = importlib.import_module("vt.props.%s" % prop.lower())
    # import every repository module first so that their code objects get instrumented
    for name in ("trie.hexary", "trie.binary", "trie.smt", "trie.fog", "trie.iter",
                 "trie.branches", "trie.utils.db", "trie.utils.nodes", "trie.utils.nibbles",
                 "trie.utils.binaries", "trie.validation", "trie.exceptions", "trie.typing"):
        importlib.import_module(name)
    prefix = env.REPO + os.sep
    core.install_step_monitor(prefix)
    cover.install(prefix)
    ctx = core.Ctx(prop, tier, int(seed), int(shard), int(nshards))
    mod.run_shard(ctx)
    res = ctx.result()
    res["cover"] = cover.report(prop, env.VERIF)
    with open(out, "w") as f:
        json.dump(res, f, default=repr)


if __name__ == "__main__":
    main()
