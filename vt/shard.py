"""One shard of a property's workload: fresh interpreter, loads the repository under test,
installs the step and coverage monitors, runs the property's run_shard(ctx) and dumps what
the monitors observed as JSON."""
import importlib
import json
import os
import sys


def main():
    prop, tier, seed, shard, nshards, out = sys.argv[1:7]
    from vt import env

    env.load_repo()
    env.ensure_deps()
    from vt import core
    from vt.monitor import cover

    mod = importlib.import_module("vt.props.%s" % prop.lower())
    # import every repository module first so that their code objects get instrumented
    for name in ("trie.hexary", "trie.binary", "trie.smt", "trie.fog", "trie.iter",
                 "trie.branches", "trie.utils.db", "trie.utils.nodes", "trie.utils.nibbles",
                 "trie.utils.binaries", "trie.validation", "trie.exceptions", "trie.typing"):
        importlib.import_module(name)
    contracts = None
    if tier == "thorough" or os.environ.get("VT_CONTRACTS") == "1":
        # second line of monitors: icontract post-conditions on the real functions, evaluated
        # on every call the workload makes (about 2x slower, hence not in the quick tier)
        from vt.monitor import contracts

        contracts.install()
    prefix = env.REPO + os.sep
    core.install_step_monitor(prefix)
    cover.install(prefix)
    ctx = core.Ctx(prop, tier, int(seed), int(shard), int(nshards))
    mod.run_shard(ctx)
    if contracts is not None:
        rep = contracts.report()
        for name, n in rep["evaluations"].items():
            ctx.count("contract_evals_" + name, n)
        surfaced = sum(1 for v in ctx.violations if v["monitor"].startswith("contract-"))
        if len(rep["broken"]) > surfaced:
            # broken inside a call whose exceptions the workload expected (and swallowed)
            for b in rep["broken"][: core.Ctx.MAX_VIOLATIONS]:
                ctx.violation("contract-" + b["contract"], b["detail"], {"engine": "contract", "note":
                              "contract broken inside a call that the workload expected to raise"})
    res = ctx.result()
    res["cover"] = cover.report(prop, env.VERIF)
    with open(out, "w") as f:
        json.dump(res, f, default=repr)


if __name__ == "__main__":
    main()
