"""Loading the code under test.

Every check runs the CURRENT WORKING TREE of the repository ($VERIF_REPO, default /repo):
the directory is put first on sys.path and the import is verified to come from there
(pure Python: importing is the build).  Third-party run-time contracts (icontract) are
installed offline into /verif/.deps on demand.
"""
import os
import subprocess
import sys

VERIF = os.path.dirname(os.path.dirname(os.path.abspath(__file__)))
REPO = os.path.realpath(os.environ.get("VERIF_REPO", "/repo"))
DEPS = os.path.join(VERIF, ".deps")
WHEELS = "/opt/veriftools/wheels"
PYTHON = os.environ.get("VERIF_PYTHON", "/venv/bin/python")


def load_repo():
    if REPO not in sys.path[:1]:
        sys.path.insert(0, REPO)
    import trie  # noqa

    where = os.path.realpath(trie.__file__)
    if not where.startswith(REPO + os.sep):
        raise RuntimeError(
            "stale import: trie loaded from %s, expected under %s" % (where, REPO)
        )
    return trie


def ensure_deps():
    """Make icontract importable (offline install into .deps). Returns True if available."""
    marker = os.path.join(DEPS, "icontract")
    if not os.path.isdir(marker):
        os.makedirs(DEPS, exist_ok=True)
        cmd = [
            PYTHON, "-m", "pip", "install", "--quiet", "--no-index",
            "--disable-pip-version-check", "--find-links", WHEELS,
            "--target", DEPS, "icontract",
        ]
        try:
            subprocess.run(cmd, check=True, timeout=300, stdout=subprocess.DEVNULL,
                           stderr=subprocess.DEVNULL)
        except Exception:
            return False
    if DEPS not in sys.path:
        sys.path.append(DEPS)
    return os.path.isdir(marker)


def child_env():
    env = dict(os.environ)
    env["PYTHONHASHSEED"] = "0"
    env["PYTHONDONTWRITEBYTECODE"] = "1"
    env["VERIF_REPO"] = REPO
    env["PY_TRIE_VERIF"] = "1"
    pp = [VERIF]
    if env.get("PYTHONPATH"):
        pp.append(env["PYTHONPATH"])
    env["PYTHONPATH"] = os.pathsep.join(pp)
    return env
