"""Self-test of the oracles (run by setup.sh and importable by checks)."""
import os
import sys


def main():
    from vt import env
    env.load_repo()
    from eth_hash.auto import keccak
    from vt.ref import keccak as pyk, mpt

    import random
    rnd = random.Random(1)
    for n in [0, 1, 31, 32, 33, 135, 136, 137, 271, 272, 300] + [rnd.randrange(600) for _ in range(50)]:
        d = bytes(rnd.randrange(256) for _ in range(n))
        assert pyk.keccak256(d) == keccak(d), "keccak backend disagrees with pure-Python Keccak-256"
    assert keccak(b"") == bytes.fromhex("c5d2460186f7233c927e7db2dcc703c0e500b653ca82273b7bfad8045d85a470")
    assert keccak(b"\x80") == mpt.BLANK_ROOT
    n = mpt.self_test()
    ok = env.ensure_deps()
    print("selftest ok: keccak cross-checked on 61 inputs, %d MPT vectors, icontract %s"
          % (n, "available" if ok else "MISSING"))


if __name__ == "__main__":
    main()
